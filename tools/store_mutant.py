#!/usr/bin/env python3
"""store_mutant.py <id> <worktree> <breaks> <detected_by comma list> <needs text>  -- copies a confirmed external seeded change into /verif/seeded/ext-<id>/"""
import sys, os, json, shutil, subprocess, re
id_, wt, breaks, det, needs = sys.argv[1:6]
name = id_ if id_.startswith('ext') else 'ext-' + id_
d = '/verif/seeded/%s' % name
os.makedirs(d, exist_ok=True)
shutil.copy(os.path.join(wt, 'mutant.diff'), os.path.join(d, 'patch.diff'))
demo = os.path.join(wt, 'tests/h2-tests/tests/mutant_demo.rs')
if os.path.exists(demo):
    shutil.copy(demo, os.path.join(d, 'mutant_demo.rs'))
res = ''
vl = os.path.join(wt, 'verify.log')
if os.path.exists(vl):
    for l in open(vl):
        if l.startswith('RESULT'):
            res = l.strip()
json.dump({
    "id": name,
    "breaks": breaks,
    "origin": "written by an independent sub-agent that was given only the property text and a scratch worktree",
    "needs_to_manifest": needs,
    "demonstration": "mutant_demo.rs (goes to tests/h2-tests/tests/mutant_demo.rs; `cargo test --offline -p h2-tests --test mutant_demo`): fails with the patch, passes without",
    "what_i_ran": "tools/verify_mutant.sh <worktree> (demo with/without the change, then the whole workspace suite incl. hammer with the change): " + res + " ; tools/try_patch.sh seeded/%s/patch.diff -- %s" % (name, det.replace(',', ' ')),
    "detected_by": [x for x in det.split(',') if x],
}, open(os.path.join(d, 'meta.json'), 'w'), indent=1)
print('stored', d)
