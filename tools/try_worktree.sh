#!/bin/sh
# usage: try_worktree.sh <h2 tree> <ID> [<ID> ...]
# Builds a private copy of the simulator against the given h2 tree (e.g. a scratch worktree
# with a seeded change applied) and runs the quick checks of the given properties with it.
# /repo, /verif/target and /verif/evidence are not touched, so this can run while registered
# checks are running. Scratch lives under /tmp/h2sim-wt-<pid> and is removed afterwards.
tree="$1"; shift
[ -f "$tree/Cargo.toml" ] || { echo "no h2 tree at $tree" >&2; exit 2; }
w=/tmp/h2sim-wt-$$
mkdir -p "$w/root" || exit 2
trap 'rm -rf "$w"' EXIT INT TERM
cp -r /verif/sim "$w/sim"
sed -i "s#path = \"/repo\"#path = \"$tree\"#" "$w/sim/Cargo.toml"
sed -i "s#target-dir = \"/verif/target\"#target-dir = \"$w/target\"#" "$w/sim/.cargo/config.toml"
cp /verif/known_findings.jsonl "$w/root/"
(cd "$w/sim" && CARGO_NET_OFFLINE=true cargo build --release --offline -q 2>"$w/build.err") || { cat "$w/build.err" >&2; echo "harness error: build failed" >&2; exit 2; }
for id in "$@"; do
  out=$(cd "$w/root" && H2SIM_ROOT="$w/root" "$w/target/release/h2sim" check "$id" quick 2>&1); code=$?
  echo "== $id exit=$code"
  echo "$out" | grep -E "VIOLATION|signature|harness error|note:|^C[0-9]+ quick" | cut -c1-260
done
