#!/usr/bin/env python3
"""catalogue.py [id ...]  -- sensitivity catalogue.

For every seeded change under /verif/seeded/<id>/ (or the ids given): apply its patch.diff to
/repo's working tree, run the quick checks named in meta.json "detected_by" (first entry = the
property the change breaks), restore /repo, and record exit codes and signatures. Then run
nothing on the clean tree (the ordinary quick pass does that). Writes /verif/SENSITIVITY.md.

A change counts as caught by a check when the check exits 1 with a VIOLATION line.
"""
import glob, json, os, re, subprocess, sys, time

ROOT = '/verif/seeded'
ids = sys.argv[1:] or sorted(os.path.basename(os.path.dirname(p)) for p in glob.glob(ROOT + '/*/meta.json'))
rows = []
for i in ids:
    d = os.path.join(ROOT, i)
    m = json.load(open(os.path.join(d, 'meta.json')))
    checks = m.get('detected_by') or [m['breaks']]
    t0 = time.time()
    p = subprocess.run(['/verif/tools/try_patch.sh', os.path.join(d, 'patch.diff'), '--'] + checks,
                       stdout=subprocess.PIPE, stderr=subprocess.STDOUT, text=True)
    out = p.stdout
    res = {}
    cur = None
    for line in out.splitlines():
        mm = re.match(r'== (C\d+) exit=(\d+)', line)
        if mm:
            cur = mm.group(1)
            res[cur] = {'exit': int(mm.group(2)), 'sigs': []}
        elif cur and 'signature:' in line:
            res[cur]['sigs'].append(line.split('signature:')[1].strip())
    files = sorted(set(re.findall(r'^\+\+\+ b/(\S+)', open(os.path.join(d, 'patch.diff')).read(), re.M)))
    rows.append((i, m, files, res, time.time() - t0, out if not res else ''))
    json.dump({'checks': res, 'seconds': round(time.time() - t0, 1)}, open(os.path.join(d, 'last_run.json'), 'w'), indent=1)
    print(i, {k: v['exit'] for k, v in res.items()}, flush=True)

with open('/verif/SENSITIVITY.md', 'w') as f:
    f.write('# Sensitivity catalogue\n\n')
    f.write('Produced by `tools/catalogue.py`: each seeded change is applied to /repo\'s working tree, the quick\n'
            'checks listed are run, and /repo is restored. `1` = the check reported a VIOLATION (caught), `0` = missed.\n'
            'The first check named is that of the property the change was written to break. `ext-*` = written by an\n'
            'independent sub-agent from the property text alone; `fixrev-*` = reverse of a `fix:` commit.\n\n')
    f.write('| change | breaks | touches | needs to manifest | check: exit (first signature) |\n|---|---|---|---|---|\n')
    for i, m, files, res, secs, raw in rows:
        cells = []
        for k, v in res.items():
            sig = v['sigs'][0] if v['sigs'] else ''
            cells.append('%s: %d%s' % (k, v['exit'], (' (`%s`)' % sig) if sig else ''))
        f.write('| %s | %s | %s | %s | %s |\n' % (i, m['breaks'], ', '.join(x.replace('src/', '') for x in files), m.get('needs_to_manifest', '').replace('|', '/'), '; '.join(cells) or 'harness error'))
    caught = sum(1 for r in rows if r[3] and list(r[3].values())[0]['exit'] == 1)
    f.write('\n%d of %d changes caught by the check of the property they break.\n' % (caught, len(rows)))
print('written /verif/SENSITIVITY.md')
