#!/bin/sh
# run every registered check at the given tier; summary on stdout
tier="${1:-quick}"
for id in C01 C02 C03 C04 C05 C06 C07 C08 C09 C10 C11 C12 C13 C14 C15 C16 C17 C18 C19 C20; do
  out=$(/verif/target/release/h2sim check $id $tier 2>&1); code=$?
  echo "== $id exit=$code"; echo "$out" | grep -E "VIOLATION|KNOWN-FINDING|signature|inconclusive|no scenarios|^C[0-9]+ (quick|thorough)" | cut -c1-400
done
