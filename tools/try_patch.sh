#!/bin/sh
# usage: try_patch.sh <patch file> [-R] -- <ID> [<ID> ...]
# Applies the patch to /repo's working tree, runs the quick checks of the given properties,
# prints their verdict lines, and always restores /repo afterwards.
patch="$1"; shift
rev=""
if [ "$1" = "-R" ]; then rev="-R"; shift; fi
[ "$1" = "--" ] && shift
if ! git -C /repo diff --quiet; then echo "refusing: /repo has uncommitted changes" >&2; exit 2; fi
git -C /repo apply $rev "$patch" || { echo "patch does not apply" >&2; exit 2; }
# restore the tree and the simulator binary built from it
trap 'git -C /repo checkout -- . ; (cd /verif/sim && cargo build --release --offline -q 2>/dev/null)' EXIT INT TERM
export H2SIM_EVIDENCE_DIR=/verif/target/evidence-scratch
for id in "$@"; do
  out=$(/verif/check "$id" quick 2>&1); code=$?
  echo "== $id exit=$code"
  echo "$out" | grep -E "VIOLATION|signature|harness error|inconclusive|^C[0-9]+ quick" | cut -c1-260
done
