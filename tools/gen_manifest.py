#!/usr/bin/env python3
"""Regenerates /verif/MANIFEST.json from the table below (keep in sync with sim/src/props.rs)."""
import json, subprocess

HOOK_COMMITS = subprocess.run(
    ["git", "-C", "/repo", "log", "--format=%H %s", "--reverse"], capture_output=True, text=True
).stdout.strip().splitlines()
hook_commits = [l.split()[0] for l in HOOK_COMMITS if " verif hook" in l]

CLAIMED = {
    # id: (category, text, design_ref, level_note, technique)
    "C01": ("exploration",
            "Seeded search over schedules, transport chunkings, window/frame/buffer configurations and application programs with a real client and a real server in one process; per-stream submitted-vs-delivered history oracle with attributable byte patterns (exactly once, in order, same stream, clean end iff complete). Sampling, not proof.",
            "DESIGN.md §4 C01", "Trusts the harness programs' own bookkeeping of what they submitted; header comparison is modulo http::HeaderMap grouping (cross-name order not observable through the API).",
            "deterministic simulation: seeded schedule/fault search with API-history oracle"),
    "C06": ("exploration",
            "Cooperative runs under a strict wake-only executor: at quiescence every task must have finished; a parked task is reported with the operation it waits on and both endpoints' flow-control state. Bounded liveness (step budget) over seeded schedules, I/O timings and window/limit configurations including mid-connection changes.",
            "DESIGN.md §4 C06", "Programs are free of circular waits by construction; the executor never polls a task whose waker did not fire.",
            "deterministic simulation: strict wake-only executor, quiescence oracle"),
}

NA_REASON_PENDING = "check not built yet in this revision of /verif (simulation applies; see DESIGN.md §4) - not claimed until its oracle is in place"

def main():
    props = [json.loads(l) for l in open("/verif/properties.jsonl")]
    checks = []
    na = []
    for p in props:
        pid = p["id"]
        if pid in CLAIMED:
            cat, text, ref, note, tech = CLAIMED[pid]
            checks.append({
                "property_id": pid,
                "quick_cmd": f"./check {pid} quick",
                "thorough_cmd": f"./check {pid} thorough",
                "evidence_file": f"/verif/evidence/{pid}.json",
                "replay_cmd_template": "./check replay {path}",
                "engine": "h2sim",
                "level_claimed": {"category": cat, "text": text, "design_ref": ref},
                "level_note": note,
                "technique": tech,
            })
        else:
            na.append({"property_id": pid, "reason": NA_REASON_PENDING})
    m = {
        "version": 1,
        "setup_cmd": "cd /verif/sim && CARGO_NET_OFFLINE=true cargo build --release --offline",
        "hooks": {
            "guard": "cargo feature `verif` of crate h2",
            "enable": "the simulator depends on h2 = { path = \"/repo\", features = [\"verif\"] }; every ./check run rebuilds it from /repo's working tree",
            "baseline_off_cmd": "cd /repo && cargo test --workspace --no-fail-fast --offline",
            "source_commits": hook_commits,
            "add_only": True,
        },
        "engines": [{
            "name": "h2sim",
            "path": "/verif/sim",
            "serves_properties": sorted(CLAIMED.keys()),
            "kind_free_text": "deterministic simulator: own executor, simulated transport and clock, seeded decision tape with replay and minimisation, wire monitors and API-history oracles",
        }],
        "checks": checks,
        "not_applicable": na,
        "notes": "Exit codes: 0 held, 1 VIOLATION, 2 harness error/inconclusive. VERIF_SEED selects the seed family (default 1). Known findings: /verif/known_findings.jsonl.",
    }
    json.dump(m, open("/verif/MANIFEST.json", "w"), indent=1)
    print("wrote MANIFEST.json with", len(checks), "checks,", len(na), "not claimed")

main()
