#!/usr/bin/env python3
"""Regenerates /verif/MANIFEST.json from the table below (keep in sync with sim/src/props.rs)."""
import json, subprocess

HOOK_COMMITS = subprocess.run(
    ["git", "-C", "/repo", "log", "--format=%H %s", "--reverse"], capture_output=True, text=True
).stdout.strip().splitlines()
hook_commits = [l.split()[0] for l in HOOK_COMMITS if " verif hook" in l]

SIM = "deterministic simulation with fault injection"
CLAIMED = {
    # id: (category, text, design_ref, level_note, technique)
    "C01": ("exploration",
            "Seeded search over schedules, transport chunkings, window/frame/buffer configurations and application programs with a real client and a real server (T1) and against a scripted peer (T2); per-stream submitted-vs-delivered history oracle with attributable byte patterns (exactly once, in order, same stream, clean end iff complete; prefix only when reset or cut). Sampling, not proof.",
            "DESIGN.md 4 C01", "Trusts the harness programs' bookkeeping of what they submitted; header comparison is modulo http::HeaderMap grouping (cross-name order is not observable through the API).",
            SIM + ": seeded schedule/fault search, API-history oracle"),
    "C02": ("exploration",
            "Wire accountant of the peer-granted credit per emitting endpoint, driven by the endpoint's own ordered frame-in/frame-out event log (exact processed/encoded instants): every DATA frame must fit the stream and connection windows it had been granted when it was encoded, including acknowledged SETTINGS deltas that make windows negative; at every sample with nothing in flight the endpoint's internal connection send window and every open stream's send window (incl. pushed streams) must equal the wire accountant's (books == wire).",
            "DESIGN.md 4 C02, 2.9a", "The event-log hooks (two one-line producers in the codec) report encode/decode order faithfully; independent frame parser.",
            SIM + ": wire monitor with exact event order"),
    "C03": ("exploration",
            "Advertised-window accountant (no over-credit: stream credit never exceeds flow-controlled bytes processed, connection credit never exceeds the largest configured target; no zero increments), idle-state conservation check (window to give equals the configured target once everything is released or discarded) and a scripted-peer exhaustion probe (padded DATA, dropped/reset/refused streams, then the peer uses up its whole window: books equal wire, nothing leaked, nothing withheld above the update threshold); at every sample with nothing in flight the window the endpoint believes to have advertised, per connection and per stream still being read (incl. pushed streams), must equal acknowledged INITIAL_WINDOW_SIZE + WINDOW_UPDATEs sent - DATA processed.",
            "DESIGN.md 4 C03", "Credit for data on a stream whose receive handle was dropped is required at connection level only (h2 intentionally stops replenishing such a stream). Internal counters are read through the guarded stats hook.",
            SIM + ": wire accountant + exhaustion probe with scripted peer"),
    "C04": ("exploration",
            "Sender-side RFC 9113 5.1/6 automaton over every frame an endpoint emits, evaluated against exactly the input it had processed when it encoded the frame: id parity and monotonicity, HEADERS first, nothing on idle streams, nothing but permitted types after END_STREAM/RST_STREAM, contiguous header blocks, stream-0 discipline, PUSH_PROMISE only on a sendable parent, 1xx only before the final head; abort-heavy programs, shutdowns, pushes, large header lists.",
            "DESIGN.md 4 C04", "Independent frame parser and reference HPACK decoder (validated against the third-party fixture stories).",
            SIM + ": wire life-cycle automaton"),
    "C05": ("exploration",
            "Outbound: at every stream-opening HEADERS the count of self-initiated streams not yet closed (most favourable reading) must stay within the peer's acknowledged MAX_CONCURRENT_STREAMS (server-pushed streams count from their response HEADERS on, also when the response is submitted after the PUSH_PROMISE was written; streams above a processed GOAWAY's last-stream-id stop counting); progress with small limits and many racing request handles shows every closing path frees its slot. Inbound: refusals beyond the advertised limit are REFUSED_STREAM and never reach the application; idle-state check shows the concurrency counters return to zero.",
            "DESIGN.md 4 C05", "Limit 0 that is never raised is not generated in cooperative runs (legitimate block).",
            SIM + ": wire concurrency counter + progress oracle"),
    "C06": ("exploration",
            "Cooperative runs under a strict wake-only executor: at quiescence every task must have finished; a parked task is reported with the operation it waits on, both endpoints' flow-control state and the transport state. Bounded liveness (step budget) over seeded schedules, I/O timings and window/limit configurations including mid-connection changes.",
            "DESIGN.md 4 C06", "Programs are free of circular waits by construction (abandon tokens, eventual release, zero limits eventually raised); the executor never polls a task whose waker did not fire; quiescence with both transport writers blocked is outside the precondition.",
            SIM + ": strict wake-only executor, quiescence oracle"),
    "C07": ("fault_enumeration",
            "For each sampled scenario a reference run is recorded, then the same tape is re-run once per cut point: every byte offset (dense prefix, then strided) of both directions and every executor step, for each ending kind (clean EOF, read error, write error, write-zero, abrupt cut, dropping the Connection, flush error, shutdown error); plus seeded fatal-fault and shutdown runs, with and without server push (push-promise waiters parked in their own task). Afterwards every handle operation must have resolved and a stream whose complete message had been processed before the ending must still deliver it.",
            "DESIGN.md 4 C07", "Per scenario the cut-point set is covered completely in the thorough tier up to the dense prefix (4096 offsets) and strided beyond; scenarios themselves are sampled.",
            SIM + ": cut-point sweep (fault enumeration) over seeded scenarios"),
    "C08": ("exploration",
            "Hostile scripted peer (raw byte corruption, illegal frame orders, malformed and invalid-HPACK blocks, floods) against both roles with applications running: every poll runs under catch_unwind (no panic), a livelock oracle bounds polls without transport/API progress (no self-wake loop), what the endpoint writes must be covered by what its application submitted plus what the peer sent (no unbounded output per input byte), and after whatever happened the connection either still serves or has ended with every handle resolved; directed scenario: a server pushing behind a blocked writer while the client sends GOAWAY.",
            "DESIGN.md 4 C08", "Work-per-byte is bounded through the step budget and the no-progress oracle rather than wall-clock; inputs are sampled.",
            SIM + ": hostile scripted peer, panic/livelock/outcome oracles"),
    "C09": ("exploration",
            "Scripted peer: a legal history prefix, one catalogue violation (30 classes over RFC 9113 4-6) tagged with the minimum required reaction, then a follow-up stream; connection violations must yield GOAWAY(code != 0) and a failed connection future, stream violations at least RST_STREAM with other streams still working; legal-but-unusual runs (PRIORITY anywhere, unknown frames/settings, padding, late frames on finished streams, PING bursts) and all h2<->h2 cooperative runs must see no error GOAWAY, no unexplained RST_STREAM and no connection error.",
            "DESIGN.md 4 C09, Appendix A", "Frames on a stream the endpoint reset and may have forgotten by configuration are 'unspecified' (RFC 9113 5.1 lets an endpoint bound the period; h2's own suite pins GOAWAY for HEADERS on a forgotten stream).",
            SIM + ": scripted peer with reference classification"),
    "C10": ("exploration",
            "Every HEADERS / PUSH_PROMISE / trailers / 1xx block any endpoint emits in any T1/T2 run is reassembled from its CONTINUATION chain and decoded by the independent RFC 7541 reference decoder that has seen the whole connection and knows the table-size limit the peer allowed (acknowledged SETTINGS): it must decode, never exceed the limit, start with a size update after a reduction, and equal the submitted field list; table sizes 0..65536 and changes, large header lists, small frame sizes.",
            "DESIGN.md 4 C10", "'For all header lists' is an input quantifier: contents are sampled by the generator, not searched by the scheduler.",
            SIM + ": wire tap + reference HPACK decoder"),
    "C11": ("exploration",
            "Scripted peer encodes header blocks with every representation choice (indexed, literal with/without/never indexing, Huffman or raw, non-minimal integers), splits them into HEADERS+CONTINUATION at arbitrary offsets over a fragmenting transport, mutates blocks into the RFC 7541 decoding errors, and probes the first index past the dynamic table as the reference table defines it at that moment (also right after an insertion larger than the table, which must have emptied it); the endpoint must deliver exactly the reference decoder's field list or fail the connection when the reference says error.",
            "DESIGN.md 4 C11", "The exhaustive sub-clause (all Huffman strings / prefix integers up to a bound) is enumeration and is not claimed; inputs are sampled.",
            SIM + ": scripted peer, reference decoder as oracle"),
    "C12": ("exploration",
            "All bytes any endpoint writes in T1/T2 pass an independent incremental RFC 9113 parser under arbitrary write chunking, Pending and vectored/non-vectored modes (parse failure, wrong fixed lengths, payload above the peer's acknowledged MAX_FRAME_SIZE are violations); the scripted peer sends all frame types with padding/priority/unknown flags in every read chunking and an oversize frame head alone, which must be answered with GOAWAY without waiting for the payload; a framing-level GOAWAY in answer to a well-formed padded/priority/empty/CONTINUATION frame is a parse disagreement.",
            "DESIGN.md 4 C12", "The component-level codec pipe (T3) of the design is not built; the codec is exercised inside full connections only.",
            SIM + ": wire tap parser under I/O chunking faults"),
    "C13": ("exploration",
            "Scripted peer sends requests/responses/trailers/1xx whose header sections are drawn from the RFC 9113 section 8 malformations (and valid unusual ones), split across CONTINUATION at any offset, with DATA frame sequences (zero-length and padded frames included) that match, undershoot or overshoot a drawn content-length (0 included); a reference validity predicate decides each: invalid messages must never reach accept()/ResponseFuture/trailers and the stream or connection must fail; valid ones must arrive unmodified.",
            "DESIGN.md 4 C13", "The predicate is a function of the input; simulation contributes fragmentation, stream state and DATA timing. The send-API half is covered only as far as C04's automaton (1xx/PUSH ordering).",
            SIM + ": scripted peer with reference validity predicate"),
    "C14": ("exploration",
            "ACK accountant on the wire: the k-th SETTINGS processed is answered by the k-th SETTINGS ACK, each PING by one PING ACK with the same payload in order, never an ACK that answers nothing, none owed at quiescence, none skipped (an endpoint that goes on encoding other frames after processing a SETTINGS/PING and never its acknowledgement) and none overtaken by more than 4 later frames (bounded promptness under write back-pressure, incl. a writer that is Pending on the first attempt of a poll and ready on the retry); scripted bursts of SETTINGS/PING while the endpoint's writer is stalled; after its ACK every emitted frame obeys the new values (frame size, window deltas, table size, push); unsolicited SETTINGS ACK must be a connection error.",
            "DESIGN.md 4 C14", "Settings are taken to apply at the instant the endpoint encodes the ACK (which is what h2 does). The overtaking limit (4 frames) is a bounded-liveness reading of 'even under write back-pressure'; h2 itself encodes the acknowledgement before anything else.",
            SIM + ": wire ACK accountant under write back-pressure"),
    "C15": ("exploration",
            "Graceful and abrupt server shutdown and client drop at drawn steps of multi-stream exchanges: GOAWAY last-stream-ids emitted never increase, no stream above a processed GOAWAY's last-stream-id is opened, a connection that sent an error GOAWAY fails its own future, no GOAWAY(NO_ERROR) last-stream-id is below a stream already handed to the application (server: accepted requests; client: pushed streams whose response it holds, with pushed responses submitted in any order), the client's connection result reports the server's code as a remote GOAWAY, after graceful_shutdown every accepted stream completes and the server closes the connection by itself once drained (T1 at the idle point; T2 against a scripted peer that never closes first, with keep-alive user pings in flight: final GOAWAY present, streams opened after it not processed, streams at or below it ended), streams complete or fail on every handle (C07 oracles), completed messages survive the shutdown.",
            "DESIGN.md 4 C15", "Debug-data propagation and the PING-delimited graceful sequence are observed through the same wire monitor but not asserted frame by frame.",
            SIM + ": GOAWAY monitor + outcome oracles"),
    "C16": ("exploration",
            "poll_capacity never yields Some(Ok(0)); at sampled steps the capacity assigned to streams plus the unassigned remainder never exceeds the connection window and no stream is assigned more than its window (internal books), which agree with the wire accountant; at the idle point a fresh probe stream reserving 2^31-1 must be assigned exactly min(connection window, stream window) so that capacity stranded on finished, reset or dropped streams shows as a shortfall; capacity waiters finish in cooperative runs; senders that use capacity() without waiting for the notification (stale notifications), and capacity() after the end of the body must be 0.",
            "DESIGN.md 4 C16", "The freeze experiment of the design is replaced by the books-vs-wire invariants (same truth, checked at every sample instead of at drawn freezes).",
            SIM + ": capacity invariants + probe stream at quiescence"),
    "C17": ("exploration",
            "RST_STREAM counter per stream on the wire (never two, except RST_STREAM(STREAM_CLOSED) answering a late peer frame), never before the stream's HEADERS, no DATA after it; resets and last-handle drops at every operation index with arbitrary 32-bit codes; error facts (reason, is_remote/is_library/is_io, is_reset/is_go_away) recorded from every failing handle and every poll_reset result are cross-checked against the RST_STREAM/GOAWAY frames the endpoint really processed or sent (exact code and origin); where nothing else can have failed the stream, a processed peer reset must be what the receive handles report; in runs with resets the fidelity oracles of the other streams must stay clean.",
            "DESIGN.md 4 C17", "Exactly-one is enforced as 'never two and never on idle'; 'none when already closed' relies on C04's automaton.",
            SIM + ": wire RST counter + API error facts"),
    "C18": ("exploration",
            "Hostile scripted floods (rapid reset, CONTINUATION, tiny/empty DATA with and without large padding, oversized headers, over-concurrency, PING/SETTINGS against a stalled writer, WINDOW_UPDATE/PRIORITY, PUSH_PROMISE and 1xx towards a client) with finite limits and slow or absent application accepts; after every step the guarded statistics snapshot (records, pending accepts, remembered resets, buffered events/bytes, queued frames, partial header bytes, codec buffers) must stay within bounds derived from the configuration plus what the application holds.",
            "DESIGN.md 4 C18", "Bounds are generous linear formulas (they separate bounded from unbounded growth, not tight accounting).",
            SIM + ": hostile floods + stats-bound oracle"),
    "C19": ("exploration",
            "Phase-gated runs: when every stream is finished and every stream handle dropped but both connections and one request handle are alive, the statistics snapshot must show no stream record except remembered local resets, empty buffers, zero concurrency counters, nothing in flight, windows equal to the wire accountant and the expected handle count; then the last handle is dropped and the client must send GOAWAY(NO_ERROR), shut down and complete Ok (all tasks finish); in the opposite order (request handle dropped first, streams - some of them reset - finishing later) the client connection must notice by itself that nothing is left and close.",
            "DESIGN.md 4 C19", "Internal state is read through the guarded stats hook (read-only).",
            SIM + ": idle-state oracle at quiescence"),
    "C20": ("exploration",
            "At every lock / atomic yield point inside either connection task's poll (pass-through Mutex/Atomic shims) a whole poll of a woken application task may be run, which is what another thread could do between two of the connection's critical sections; all wire and history oracles stay on (any broken guarantee is a C20 violation) plus lock-order, re-entrancy and poisoning detection in the shims.",
            "DESIGN.md 4 C20, 2.5", "Interleavings inside multi-critical-section handle operations (baton-scheduled threads) are not built; real parallel executions are not part of any verdict. h2 is data-race free by construction (two mutexes, one atomic state machine).",
            SIM + ": handle operations injected at lock/atomic yield points"),
}

NA_REASON_PENDING = "check not built yet in this revision of /verif (simulation applies; see DESIGN.md §4) - not claimed until its oracle is in place"

def main():
    props = [json.loads(l) for l in open("/verif/properties.jsonl")]
    checks = []
    na = []
    for p in props:
        pid = p["id"]
        if pid in CLAIMED:
            cat, text, ref, note, tech = CLAIMED[pid]
            checks.append({
                "property_id": pid,
                "quick_cmd": f"./check {pid} quick",
                "thorough_cmd": f"./check {pid} thorough",
                "evidence_file": f"/verif/evidence/{pid}.json",
                "replay_cmd_template": "./check replay {path}",
                "engine": "h2sim",
                "level_claimed": {"category": cat, "text": text, "design_ref": ref},
                "level_note": note,
                "technique": tech,
            })
        else:
            na.append({"property_id": pid, "reason": NA_REASON_PENDING})
    m = {
        "version": 1,
        "setup_cmd": "cd /verif/sim && CARGO_NET_OFFLINE=true cargo build --release --offline",
        "hooks": {
            "guard": "cargo feature `verif` of crate h2",
            "enable": "the simulator depends on h2 = { path = \"/repo\", features = [\"verif\"] }; every ./check run rebuilds it from /repo's working tree",
            "baseline_off_cmd": "cd /repo && cargo test --workspace --no-fail-fast --offline",
            "source_commits": hook_commits,
            "add_only": True,
        },
        "engines": [{
            "name": "h2sim",
            "path": "/verif/sim",
            "serves_properties": sorted(CLAIMED.keys()),
            "kind_free_text": "deterministic simulator: own executor, simulated transport and clock, seeded decision tape with replay and minimisation, wire monitors and API-history oracles",
        }],
        "checks": checks,
        "not_applicable": na,
        "notes": "Exit codes: 0 held, 1 VIOLATION, 2 harness error/inconclusive. VERIF_SEED selects the seed family (default 1). Known findings: /verif/known_findings.jsonl.",
    }
    json.dump(m, open("/verif/MANIFEST.json", "w"), indent=1)
    print("wrote MANIFEST.json with", len(checks), "checks,", len(na), "not claimed")

main()
