#!/bin/sh
# usage: verify_mutant.sh <worktree dir> <demo test target name>
# Confirms an externally written seeded change: demo fails with it / passes without it,
# and the existing workspace suite (incl. hammer) passes with it.
d="$1"; demo="${2:-mutant_demo}"
cd "$d" || exit 2
log="$d/verify.log"; : > "$log"
git diff --quiet -- src && { echo "mutant not applied" | tee -a "$log"; exit 2; }
echo "## demo WITH change" >> "$log"
cargo test --offline -j 8 -p h2-tests --test "$demo" >> "$log" 2>&1; with=$?
git diff -- src > /tmp/verify_$$.diff
git apply -R /tmp/verify_$$.diff || exit 2
echo "## demo WITHOUT change" >> "$log"
cargo test --offline -j 8 -p h2-tests --test "$demo" >> "$log" 2>&1; without=$?
git apply /tmp/verify_$$.diff || exit 2
rm -f /tmp/verify_$$.diff
echo "## full suite WITH change" >> "$log"
cargo test --workspace --no-fail-fast --offline -j 8 >> "$log" 2>&1
demofns=$(grep -oE "fn [a-z_0-9]+\(" "tests/h2-tests/tests/$demo.rs" | sed 's/fn //; s/(//' | tr '\n' '|' | sed 's/|$//')
fails=$(grep -E "^test .* \.\.\. FAILED" "$log" | grep -v clear_recv_buffer_caps_capacity_before_overflow | grep -v "mutant" | grep -vE "^test (${demofns:-@@none@@}) " | sort -u)
echo "RESULT demo_with_change_exit=$with demo_without_change_exit=$without other_suite_failures=[$(echo $fails | tr '\n' ' ')]" | tee -a "$log"
