//! Specialised T2 scenario generators (floods, acknowledgement pressure, window exhaustion
//! probe) and the configuration-derived bounds of C18.

use crate::hist::Violation;
use crate::peer::*;
use crate::prog::*;
use crate::t2::{Expect, T2Kind, T2Plan};
use crate::tape::{Lane, Tape};
use crate::wire::*;
use std::collections::BTreeMap;

#[derive(Debug, Default, Clone)]
pub struct Maxima {
    pub records: usize,
    pub recv_slots: usize,
    pub recv_bytes: usize,
    pub send_slots: usize,
    pub partial_header: usize,
    pub read_buffer: usize,
    pub write_buffer: usize,
    pub pending_accept: usize,
    pub remembered: usize,
    pub reserved_remote: usize,
}

impl Maxima {
    pub fn export(&self, probes: &mut BTreeMap<&'static str, u64>) {
        let mut put = |k: &'static str, v: usize| {
            let e = probes.entry(k).or_insert(0);
            *e = (*e).max(v as u64);
        };
        put("max_stream_records", self.records);
        put("max_recv_buffer_slots", self.recv_slots);
        put("max_recv_buffer_bytes", self.recv_bytes);
        put("max_send_buffer_slots", self.send_slots);
        put("max_partial_header_bytes", self.partial_header);
        put("max_codec_read_buffer", self.read_buffer);
        put("max_codec_write_buffer", self.write_buffer);
        put("max_pending_accept", self.pending_accept);
        put("max_remembered_resets", self.remembered);
        put("max_reserved_remote", self.reserved_remote);
    }
}

/// C18: after every step, everything E keeps is bounded by a function of its configuration
/// plus what its application holds. The formulas are deliberately generous (several times
/// the largest value a correct endpoint reaches) - they exist to tell bounded from unbounded.
pub fn check_bounds(plan: &T2Plan, s: &h2::verif::VerifStats, c: &h2::verif::CodecStats, mx: &mut Maxima, out: &mut Vec<Violation>, step: u64) {
    let cfg = &plan.ecfg;
    let pending_accept = s.streams.iter().filter(|x| x.is_pending_accept).count();
    let remembered = s.streams.iter().filter(|x| x.is_pending_reset_expiry).count();
    let reserved_remote = s.streams.iter().filter(|x| x.state == 2).count();
    let held = s.streams.iter().filter(|x| x.ref_count > 0).count();
    mx.records = mx.records.max(s.store_slab);
    mx.recv_slots = mx.recv_slots.max(s.recv_buffer_slots);
    mx.recv_bytes = mx.recv_bytes.max(s.recv_buffer_data_bytes);
    mx.send_slots = mx.send_slots.max(s.send_buffer_slots);
    mx.partial_header = mx.partial_header.max(c.partial_header_len);
    mx.read_buffer = mx.read_buffer.max(c.read_buffer_len);
    mx.write_buffer = mx.write_buffer.max(c.write_buffer_len);
    mx.pending_accept = mx.pending_accept.max(pending_accept);
    mx.remembered = mx.remembered.max(remembered);
    mx.reserved_remote = mx.reserved_remote.max(reserved_remote);
    if plan.flood.is_none() {
        return;
    }
    let max_conc = cfg.max_concurrent_streams.unwrap_or(u32::MAX) as usize;
    let reset_quota = cfg.max_concurrent_reset_streams.unwrap_or(50);
    let pending_reset_quota = cfg.max_pending_accept_reset_streams.unwrap_or(20);
    let label = plan.flood.unwrap_or("");
    let mut viol = |res: &'static str, have: usize, bound: usize, what: String| {
        let disc = format!("{}:{}", label, res);
        if have > bound && !out.iter().any(|v| v.disc == disc) {
            out.push(Violation::new("C18", "bound", disc, format!("[flood {}] {} = {} exceeds the configured bound {} ({})", label, res, have, bound, what), step));
        }
    };
    if max_conc != u32::MAX as usize {
        // records: concurrently open + pending-accept resets + remembered local resets + what the
        // application holds (already counted among open) + a little slack for streams in transit
        let bound = max_conc + pending_reset_quota + reset_quota + held + 8;
        viol("stream_records", s.store_slab, bound, format!("max_concurrent {} + pending-accept-reset quota {} + reset memory {} + held {} + 8", max_conc, pending_reset_quota, reset_quota, held));
        viol("pending_accept", pending_accept, max_conc + pending_reset_quota + 4, "max_concurrent + pending-accept-reset quota + 4".into());
    }
    viol("remembered_resets", remembered, reset_quota + 1, "max_concurrent_reset_streams + 1".into());
    // buffered receive events: headers/trailers per record + DATA bounded by the connection window
    // (every buffered DATA event of n bytes holds n bytes of window; small ones are bounded by the
    // data-frame budget; empty ones by the lifetime cap of 100)
    let target = cfg.conn_target().max(65_535) as usize;
    let budget = cfg.data_frame_budget.unwrap_or(25_600).min(1 << 24);
    // The data-frame budget charges every buffered DATA frame shorter than 256 bytes with
    // its shortfall and lets longer ones pay it back, so at any instant
    //   256 x (non-empty buffered DATA frames) <= budget + buffered payload bytes (+ one frame)
    let ev_bound = 4 * s.store_slab + (budget.min(1 << 30) + s.recv_buffer_data_bytes) / 256 + 1 + 100 + 16;
    let _ = target;
    viol("recv_buffer_events", s.recv_buffer_slots, ev_bound, format!("4 x records + (data-frame budget {} + {} buffered payload bytes) / 256 + 1 + 100 empty + 16", budget, s.recv_buffer_data_bytes));
    viol("recv_buffer_bytes", s.recv_buffer_data_bytes, target + 16_384, "connection window target + one frame".into());
    // frames queued for sending that the local application did not ask for: replies only
    let app_frames = s.streams.iter().map(|x| x.buffered_send_data / 1 + 8).sum::<usize>();
    viol("send_buffer_frames", s.send_buffer_slots, app_frames + 2 * s.store_slab + 64, "application data + 2 x records + 64".into());
    let mhls = cfg.max_header_list_size.unwrap_or(16 << 20) as usize;
    let mfs = cfg.mfs() as usize;
    viol("partial_header_bytes", c.partial_header_len, mhls.saturating_mul(2).saturating_add(2 * mfs), "2 x max_header_list_size + 2 x max_frame_size".into());
    viol("codec_read_buffer", c.read_buffer_len, 2 * mfs + 65_536 + 9, "2 x max_frame_size + 64 KiB".into());
    viol("codec_write_buffer", c.write_buffer_len, 2 * 16_384 + mfs + 1024, "buffer capacity + one frame".into());
    if !plan.e_client {
        viol("reserved_remote_records", reserved_remote, 0, "a server never has reserved (remote) streams".into());
    }
}

fn req_block_small() -> Vec<u8> {
    // :method GET, :scheme https, :path /, :authority a   (all literal-free or never indexed)
    vec![0x82, 0x87, 0x84, 0x01, 0x01, b'a']
}

pub fn gen_special(t: &Tape, kind: T2Kind, plan: &mut T2Plan, known: &[u32], next_id: &mut u32) {
    match kind {
        T2Kind::Flood => gen_flood(t, plan, known, next_id),
        T2Kind::AckPressure => gen_ack_pressure(t, plan, known, next_id),
        T2Kind::Exhaust => gen_exhaust(t, plan, known, next_id),
        _ => {}
    }
}

fn gen_flood(t: &Tape, plan: &mut T2Plan, known: &[u32], next_id: &mut u32) {
    // finite limits everywhere
    plan.ecfg.max_concurrent_streams = Some(*t.pick(Lane::Cfg, &[5u32, 1, 20, 100]));
    plan.ecfg.max_header_list_size = Some(*t.pick(Lane::Cfg, &[16_384u32, 4096, 1024]));
    plan.ecfg.data_frame_budget = *t.pick(Lane::Cfg, &[None, Some(1000usize), Some(0)]);
    plan.ecfg.max_local_error_reset_streams = *t.pick(Lane::Cfg, &[None, Some(Some(10usize)), Some(Some(100))]);
    plan.ecfg.max_pending_accept_reset_streams = *t.pick(Lane::Cfg, &[None, Some(5usize), Some(0)]);
    plan.ecfg.initial_connection_window_size = *t.pick(Lane::Cfg, &[None, Some(100_000u32), Some(1 << 20)]);
    plan.accept_delay = *t.pick(Lane::Work, &[0u32, 3, 50, 100_000]);
    plan.expect = Expect::Unspecified("flood: refusal, disconnection or continued service; state must stay bounded");
    plan.grant = Grant::Immediate;
    let n = *t.pick(Lane::Peer, &[300u32, 50, 1000, 3000]);
    if plan.e_client {
        // server -> client floods answer E's first request
        let which = t.draw(Lane::Peer, 5);
        let mut frames: Vec<RawFrame> = vec![];
        match which {
            4 => {
                // promises are cheap; their responses open the streams: more responses than the
                // client's MAX_CONCURRENT_STREAMS allows must be refused, not crash the client
                plan.flood = Some("push-responses");
                plan.label = "flood:push-responses".into();
                let k = (n / 20).clamp(2, 60);
                for i in 0..k {
                    let pid = 2 + 2 * i;
                    let mut p = pid.to_be_bytes().to_vec();
                    p.extend_from_slice(&req_block_small());
                    frames.push(RawFrame::new(PUSH_PROMISE, F_END_HEADERS, 1, p));
                }
                for i in 0..k {
                    // :status 200, stream left open
                    frames.push(RawFrame::new(HEADERS, F_END_HEADERS, 2 + 2 * i, vec![0x88]));
                }
            }
            0 => {
                plan.flood = Some("push-promise");
                plan.label = "flood:push-promise".into();
                for i in 0..n {
                    let pid = 2 + 2 * i;
                    let mut p = pid.to_be_bytes().to_vec();
                    p.extend_from_slice(&req_block_small());
                    frames.push(RawFrame::new(PUSH_PROMISE, F_END_HEADERS, 1, p));
                }
            }
            1 => {
                plan.flood = Some("informational");
                plan.label = "flood:informational".into();
                for _ in 0..n {
                    // :status 103 as a never-indexed literal
                    frames.push(RawFrame::new(HEADERS, F_END_HEADERS, 1, vec![0x18, 0x03, b'1', b'0', b'3']));
                }
            }
            2 => {
                plan.flood = Some("ping");
                plan.label = "flood:ping".into();
                for i in 0..n {
                    frames.push(ping((i as u64).to_be_bytes(), false));
                }
            }
            _ => {
                plan.flood = Some("settings");
                plan.label = "flood:settings".into();
                for i in 0..n {
                    frames.push(settings_frame(&[(S_MAX_CONCURRENT_STREAMS, 100 + (i % 7))]));
                }
            }
        }
        // the application never looks at the first response
        if let Some(c) = plan.cprogs.first_mut() {
            c.poll_informational = false;
            c.take_pushes = false;
            c.start_delay = 0;
        }
        plan.script.push(PeerOp::Pause(30));
        plan.script.push(PeerOp::Barrier);
        for chunk in frames.chunks(50) {
            plan.script.push(PeerOp::Frames(chunk.to_vec()));
            if t.chance(Lane::Peer, 1, 4) {
                plan.script.push(PeerOp::Pause(1));
            }
        }
        plan.script.push(PeerOp::Barrier);
        if which <= 1 || which == 4 {
            // the first request is never answered: the flood happens on its open stream
            if let Some(r) = plan.resp_plans.first_mut() {
                r.delay = u32::MAX / 2;
            }
        }
        return;
    }
    plan.script.push(PeerOp::Drain);
    let which = t.draw(Lane::Peer, 10);
    let mut ops: Vec<PeerOp> = vec![];
    match which {
        0 => {
            plan.flood = Some("rapid-reset");
            plan.label = "flood:rapid-reset".into();
            for _ in 0..n {
                let sid = *next_id;
                *next_id += 2;
                ops.push(PeerOp::Frames(vec![RawFrame::new(HEADERS, F_END_HEADERS, sid, req_block_small()), rst_stream(sid, CANCEL)]));
            }
        }
        1 => {
            plan.flood = Some("continuation");
            plan.label = "flood:continuation".into();
            // the limits E configured hold from the start, whether or not the peer ever
            // acknowledges the SETTINGS frame that announces them
            plan.peer_withholds_settings_ack = t.chance(Lane::Peer, 1, 2);
            let sid = *next_id;
            *next_id += 2;
            ops.push(PeerOp::Frames(vec![RawFrame::new(HEADERS, 0, sid, vec![0x82, 0x87, 0x84])]));
            let piece: Vec<u8> = {
                // literal never indexed, name "x", value "y"
                vec![0x10, 0x01, b'x', 0x01, b'y']
            };
            let big = t.chance(Lane::Peer, 1, 2);
            for _ in 0..n {
                let mut p = vec![];
                for _ in 0..(if big { 200 } else { 1 }) {
                    p.extend_from_slice(&piece);
                }
                ops.push(PeerOp::Frames(vec![RawFrame::new(CONTINUATION, 0, sid, p)]));
            }
        }
        2 | 3 => {
            let empty = which == 3;
            plan.flood = Some(if empty { "empty-data" } else { "tiny-data" });
            plan.label = format!("flood:{}", if empty { "empty-data" } else { "tiny-data" });
            let sid = *next_id;
            *next_id += 2;
            // the application must not drain it: reader that never releases and a slow accept
            ops.push(PeerOp::Frames(vec![RawFrame::new(HEADERS, F_END_HEADERS, sid, vec![0x83, 0x87, 0x84, 0x01, 0x01, b'a'])]));
            // padding is not payload: a padded frame is as tiny as its payload
            let pad = *t.pick(Lane::Peer, &[None, None, Some(255u8), Some(254), Some(1), Some(0)]);
            for _ in 0..n {
                ops.push(PeerOp::Frames(vec![data(sid, if empty { b"" } else { b"z" }, false, pad)]));
            }
        }
        4 => {
            plan.flood = Some("oversized-headers");
            plan.label = "flood:oversized-headers".into();
            let mhls = plan.ecfg.max_header_list_size.unwrap_or(16_384) as usize;
            let factor = *t.pick(Lane::Peer, &[1usize, 4, 20]);
            for _ in 0..(n / 50 + 1) {
                let sid = *next_id;
                *next_id += 2;
                let mut block = req_block_small();
                let mut total = 0;
                while total < mhls * factor + 100 {
                    block.extend_from_slice(&[0x10, 0x01, b'x', 0x7f, 0x00]);
                    block.extend(std::iter::repeat(b'v').take(127));
                    total += 160;
                }
                let cuts: Vec<usize> = (1..).map(|i| i * 16_000).take_while(|c| *c < block.len()).collect();
                ops.push(PeerOp::Frames(headers_frames(sid, &block, true, &cuts, None, None)));
            }
        }
        5 => {
            plan.flood = Some("over-concurrency");
            plan.label = "flood:over-concurrency".into();
            for _ in 0..n {
                let sid = *next_id;
                *next_id += 2;
                ops.push(PeerOp::Frames(vec![RawFrame::new(HEADERS, F_END_HEADERS, sid, vec![0x83, 0x87, 0x84, 0x01, 0x01, b'a'])]));
            }
        }
        6 => {
            plan.flood = Some("ping-blocked-writer");
            plan.label = "flood:ping-blocked-writer".into();
            plan.stall_e_writes = true;
            for i in 0..n {
                ops.push(PeerOp::Frames(vec![ping((i as u64).to_be_bytes(), false)]));
            }
        }
        7 => {
            plan.flood = Some("settings-blocked-writer");
            plan.label = "flood:settings-blocked-writer".into();
            plan.stall_e_writes = true;
            for i in 0..n {
                ops.push(PeerOp::Frames(vec![settings_frame(&[(S_INITIAL_WINDOW_SIZE, 1000 + i)])]));
            }
        }
        8 => {
            plan.flood = Some("window-update-priority");
            plan.label = "flood:window-update-priority".into();
            let sid = known.first().copied().unwrap_or(1);
            for i in 0..n {
                ops.push(PeerOp::Frames(vec![priority(1 + 2 * (i % 500), 0, false, 1), window_update(sid, 1)]));
            }
        }
        _ => {
            plan.flood = Some("reset-accepted");
            plan.label = "flood:reset-accepted".into();
            // open, let the application accept, then reset
            for _ in 0..(n / 4 + 1) {
                let sid = *next_id;
                *next_id += 2;
                ops.push(PeerOp::Frames(vec![RawFrame::new(HEADERS, F_END_HEADERS, sid, vec![0x83, 0x87, 0x84, 0x01, 0x01, b'a'])]));
                ops.push(PeerOp::Pause(2));
                ops.push(PeerOp::Frames(vec![rst_stream(sid, CANCEL)]));
            }
        }
    }
    // the server application: slow readers that hold on to what they get
    for sp in plan.sprogs.iter_mut() {
        sp.read.release = *t.pick(Lane::Work, &[Release::Never, Release::Immediate]);
    }
    plan.script.extend(ops);
    plan.script.push(PeerOp::Barrier);
    plan.script.push(PeerOp::Fin);
}

fn gen_ack_pressure(t: &Tape, plan: &mut T2Plan, _known: &[u32], _next_id: &mut u32) {
    plan.label = "ack-pressure".into();
    plan.expect = Expect::Legal;
    plan.stall_e_writes = t.chance(Lane::Peer, 3, 4);
    // a small transport buffer on E's side so that its writer really blocks
    let e_side = if plan.e_client { 0 } else { 1 };
    plan.caps[e_side] = (*t.pick(Lane::Cfg, &[256usize, 512, 4096]), *t.pick(Lane::Cfg, &[256usize, 512, 4096]));
    let k = 1 + t.draw(Lane::Peer, 30);
    let mut ops = vec![];
    if !plan.e_client {
        ops.push(PeerOp::Drain);
    }
    for i in 0..k {
        match t.draw(Lane::Peer, 3) {
            0 => ops.push(PeerOp::Ping([i as u8, 0xaa, 1, 2, 3, 4, 5, t.draw(Lane::Peer, 256) as u8])),
            1 => {
                let item = match t.draw(Lane::Peer, 5) {
                    0 => (S_INITIAL_WINDOW_SIZE, *t.pick(Lane::Peer, &[65_535u32, 0, 1, 1000, 1 << 20, (1u32 << 31) - 1])),
                    1 => (S_MAX_FRAME_SIZE, *t.pick(Lane::Peer, &[16_384u32, 16_385, 1 << 20, (1 << 24) - 1])),
                    2 => (S_HEADER_TABLE_SIZE, *t.pick(Lane::Peer, &[0u32, 1, 4096, 100, 65_536])),
                    3 => (S_MAX_CONCURRENT_STREAMS, *t.pick(Lane::Peer, &[0u32, 1, 100])),
                    _ => (S_MAX_HEADER_LIST_SIZE, 1 << 20),
                };
                ops.push(PeerOp::Settings(vec![item]));
            }
            _ => {
                ops.push(PeerOp::Settings(vec![]));
                ops.push(PeerOp::Ping([i as u8, 0xbb, 0, 0, 0, 0, 0, 0]));
            }
        }
        if t.chance(Lane::Peer, 1, 6) {
            ops.push(PeerOp::Pause(t.draw(Lane::Peer, 10)));
        }
    }
    // concurrency may have been set to 0 / windows to 0: restore so that E's own traffic can finish
    ops.push(PeerOp::Settings(vec![(S_MAX_CONCURRENT_STREAMS, 100), (S_INITIAL_WINDOW_SIZE, 65_535)]));
    ops.push(PeerOp::Barrier);
    ops.push(PeerOp::Barrier);
    if !plan.e_client {
        ops.push(PeerOp::Fin);
    }
    plan.script.extend(ops);
}

fn gen_exhaust(t: &Tape, plan: &mut T2Plan, _known: &[u32], next_id: &mut u32) {
    // E is the server here (draw_t2 honours e_client of the profile)
    plan.label = "exhaust-probe".into();
    plan.expect = Expect::Legal;
    plan.ecfg.initial_connection_window_size = *t.pick(Lane::Cfg, &[None, Some(65_535u32), Some(70_000), Some(100_000), Some(16_384), Some(200_000)]);
    plan.ecfg.initial_window_size = *t.pick(Lane::Cfg, &[None, Some(16_384u32), Some(30_000), Some(1 << 20), Some(65_535)]);
    plan.ecfg.max_concurrent_streams = None;
    // reset streams stay remembered for the whole run: late frames on them must be ignored
    plan.ecfg.max_concurrent_reset_streams = Some(1000);
    plan.ecfg.reset_stream_duration = Some(std::time::Duration::from_secs(1_000_000));
    plan.grant = Grant::Immediate;
    // discard paths in the legal prefix: applications that drop, reset, refuse
    for sp in plan.sprogs.iter_mut() {
        match t.draw(Lane::Work, 6) {
            0 => sp.read.stop_after = Some(t.draw(Lane::Work, 3000) as u64),
            1 => sp.refuse = Some(*t.pick(Lane::Work, &[CANCEL, REFUSED_STREAM, INTERNAL_ERROR])),
            2 => sp.drop_without_response = true,
            3 => sp.read.release = Release::Never,
            _ => {}
        }
    }
    plan.script.push(PeerOp::Drain);
    plan.script.push(PeerOp::Barrier);
    plan.script.push(PeerOp::Mark("probe"));
    plan.script.push(PeerOp::Probe { first_sid: *next_id });
    plan.probe_stream = Some(*next_id);
    *next_id += 2 * 64;
    plan.script.push(PeerOp::Barrier);
    plan.script.push(PeerOp::Barrier);
}
