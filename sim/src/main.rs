mod cfg;
mod exec;
mod hist;
mod hpackref;
mod monitor;
mod net;
mod prog;
mod props;
mod peer;
mod t1;
mod t2;
mod t2x;
mod tape;
mod trace;
mod wire;

use hist::Violation;
use props::{entries_for, scenario_by_name, Scenario};
use serde_json::json;
use std::collections::{BTreeMap, BTreeSet};
use std::sync::atomic::{AtomicU64, Ordering};
use std::sync::{Arc, Mutex};
use std::time::{Duration, Instant};
use t1::RunOut;
use tape::{mix, Tape, TapeData, LANE_NAMES, NLANES};

fn str_hash(s: &str) -> u64 {
    let mut h: u64 = 0xcbf29ce484222325;
    for b in s.bytes() {
        h = (h ^ b as u64).wrapping_mul(0x100000001b3);
    }
    h
}

pub fn run_seed(verif_seed: u64, scn: &Scenario, idx: u64) -> u64 {
    mix(mix(verif_seed, str_hash(scn.name())), idx)
}

#[derive(Debug, Clone)]
struct KnownFinding {
    property: String,
    id: String,
    status: String,
    signature_prefix: String,
    what: String,
}

fn load_known(root: &str) -> Vec<KnownFinding> {
    let p = format!("{}/known_findings.jsonl", root);
    let mut out = Vec::new();
    if let Ok(txt) = std::fs::read_to_string(&p) {
        for line in txt.lines() {
            let line = line.trim();
            if line.is_empty() || line.starts_with('#') {
                continue;
            }
            if let Ok(v) = serde_json::from_str::<serde_json::Value>(line) {
                out.push(KnownFinding {
                    property: v["property"].as_str().unwrap_or("").to_string(),
                    id: v["id"].as_str().unwrap_or("").to_string(),
                    status: v["status"].as_str().unwrap_or("").to_string(),
                    signature_prefix: v["signature"].as_str().unwrap_or("\u{0}").to_string(),
                    what: v["what"].as_str().unwrap_or("").to_string(),
                });
            }
        }
    }
    out
}

fn known_match<'a>(known: &'a [KnownFinding], v: &Violation) -> Option<&'a KnownFinding> {
    let sig = v.signature();
    // a trailing '*' makes the listed signature a prefix; otherwise it must match exactly
    known.iter().find(|k| {
        k.status == "open"
            && k.property == v.prop
            && match k.signature_prefix.strip_suffix('*') {
                Some(p) => sig.starts_with(p),
                None => sig == k.signature_prefix,
            }
    })
}

struct Agg {
    runs: u64,
    steps: u64,
    sim_ns: u64,
    bytes: u64,
    faults: net::FaultCounters,
    probes: BTreeMap<&'static str, u64>,
    scheds: BTreeSet<u64>,
    states: BTreeSet<u64>,
    triples: BTreeSet<(u64, u64, u64)>,
    nontrivial: u64,
    streams_done: u64,
    foreign: BTreeMap<String, u64>,
    outcomes: BTreeMap<String, u64>,
    samples: Vec<serde_json::Value>,
    violations: Vec<(String, u64, u64, Violation, TapeData)>,
    known_hits: BTreeMap<String, u64>,
    determinism_rechecks: u64,
    determinism_mismatches: u64,
}

impl Agg {
    fn new() -> Agg {
        Agg {
            runs: 0,
            steps: 0,
            sim_ns: 0,
            bytes: 0,
            faults: Default::default(),
            probes: BTreeMap::new(),
            scheds: BTreeSet::new(),
            states: BTreeSet::new(),
            triples: BTreeSet::new(),
            nontrivial: 0,
            streams_done: 0,
            foreign: BTreeMap::new(),
            outcomes: BTreeMap::new(),
            samples: Vec::new(),
            violations: Vec::new(),
            known_hits: BTreeMap::new(),
            determinism_rechecks: 0,
            determinism_mismatches: 0,
        }
    }
}

struct OneResult {
    idx: u64,
    out: RunOut,
    recheck: Option<u64>,
}

fn run_entry(prop: &str, scn: &Scenario, n: u64, verif_seed: u64, workers: usize, deadline: Instant, agg: &mut Agg, known: &[KnownFinding]) {
    // Runs are executed in slices of the index range and merged slice by slice (in index
    // order, so the outcome does not depend on the worker count): a run's result carries its
    // decision tape and state samples, and hundreds of thousands of them do not fit in memory.
    const SLICE: u64 = 8192;
    let mut slice_start = 0u64;
    while slice_start < n && Instant::now() <= deadline {
        let slice_end = (slice_start + SLICE).min(n);
        run_slice(prop, scn, slice_start, slice_end, verif_seed, workers, deadline, agg, known);
        slice_start = slice_end;
    }
}

#[allow(clippy::too_many_arguments)]
fn run_slice(prop: &str, scn: &Scenario, from: u64, n: u64, verif_seed: u64, workers: usize, deadline: Instant, agg: &mut Agg, known: &[KnownFinding]) {
    let next = Arc::new(AtomicU64::new(from));
    let results: Arc<Mutex<Vec<OneResult>>> = Arc::new(Mutex::new(Vec::new()));
    let want_samples = agg.samples.len() < 3;
    std::thread::scope(|sc| {
        for _w in 0..workers {
            let next = next.clone();
            let results = results.clone();
            let scn = scn.clone();
            sc.spawn(move || {
                let mut local = Vec::new();
                loop {
                    let i = next.fetch_add(1, Ordering::Relaxed);
                    if i >= n || Instant::now() > deadline {
                        break;
                    }
                    let seed = run_seed(verif_seed, &scn, i);
                    let want_sample = want_samples && i < 2;
                    let out = scn.run(Tape::from_seed(seed), want_sample);
                    // determinism recheck on a sample of runs: replay the recorded tape
                    let recheck = if i % 97 == 0 {
                        let t = out.recheck_tape.clone().unwrap_or_else(|| out.tape.clone());
                        let o2 = scn.run(Tape::replay(t), false);
                        Some(o2.log_hash)
                    } else {
                        None
                    };
                    local.push(OneResult { idx: i, out, recheck });
                    if local.len() >= 64 {
                        results.lock().unwrap().append(&mut local);
                    }
                }
                results.lock().unwrap().append(&mut local);
            });
        }
    });
    let mut rs = std::mem::take(&mut *results.lock().unwrap());
    rs.sort_by_key(|r| r.idx);
    for r in rs {
        let o = r.out;
        agg.runs += 1;
        agg.steps += o.steps;
        agg.sim_ns += o.sim_ns;
        agg.bytes += o.bytes[0] + o.bytes[1];
        agg.faults.merge(&o.faults);
        for (k, v) in &o.probes {
            *agg.probes.entry(k).or_insert(0) += v;
        }
        agg.scheds.insert(o.sched_hash);
        for s in &o.states {
            agg.states.insert(*s);
        }
        let fault_sig = {
            let mut h = 0xcbf29ce484222325u64;
            for (k, _) in &o.faults.0 {
                t1::fnv(&mut h, k.as_bytes());
            }
            h
        };
        let nontrivial = o.streams_done > 0 || o.steps > 50;
        if nontrivial {
            agg.nontrivial += 1;
            agg.triples.insert((o.sched_hash, fault_sig, o.work_hash));
        }
        agg.streams_done += o.streams_done as u64;
        *agg.outcomes.entry(o.outcome.split('(').next().unwrap_or("").to_string()).or_insert(0) += 1;
        if let Some(h2) = r.recheck {
            agg.determinism_rechecks += 1;
            if h2 != o.log_hash {
                agg.determinism_mismatches += 1;
                eprintln!("DETERMINISM MISMATCH scenario={} idx={}", scn.name(), r.idx);
            }
        }
        if let Some(s) = o.sample {
            if agg.samples.len() < 3 {
                agg.samples.push(json!({"scenario": scn.name(), "run_index": r.idx, "case": s}));
            }
        }
        let mut seen_sigs = BTreeSet::new();
        for v in o.violations {
            if v.prop != prop {
                *agg.foreign.entry(format!("{}/{}", v.prop, v.oracle)).or_insert(0) += 1;
                continue;
            }
            if let Some(k) = known_match(known, &v) {
                *agg.known_hits.entry(k.id.clone()).or_insert(0) += 1;
                continue;
            }
            // C20 re-reports every broken guarantee seen in the interleaved runs; one that is a
            // listed finding of its own property is that same finding, not a new one
            if v.prop == "C20" && v.oracle == "guarantee-broken-under-concurrent-handle-use" {
                let mut it = v.disc.splitn(3, '/');
                if let (Some(ip), Some(io), Some(id)) = (it.next(), it.next(), it.next()) {
                    let inner_sig = format!("{}/{}/{}", ip, io, id);
                    let hit = known.iter().find(|k| {
                        k.status == "open"
                            && k.property == ip
                            && match k.signature_prefix.strip_suffix('*') {
                                Some(p) => inner_sig.starts_with(p),
                                None => inner_sig == k.signature_prefix,
                            }
                    });
                    if let Some(k) = hit {
                        *agg.known_hits.entry(k.id.clone()).or_insert(0) += 1;
                        continue;
                    }
                }
            }
            let sig = v.signature();
            if seen_sigs.insert(sig) {
                agg.violations.push((scn.name().to_string(), r.idx, run_seed(verif_seed, scn, r.idx), v, o.tape.clone()));
            }
        }
    }
}

// --------------------------------------------------------------------------------------
// minimisation

fn has_sig(out: &RunOut, sig: &str) -> bool {
    out.violations.iter().any(|v| v.signature() == sig)
}

fn minimise(scn: &Scenario, tape: TapeData, sig: &str, budget: Duration) -> (TapeData, u64) {
    let start = Instant::now();
    let mut best = tape;
    let mut tries = 0u64;
    let mut attempt = |cand: &TapeData, tries: &mut u64| -> Option<TapeData> {
        *tries += 1;
        let t = Tape::replay(cand.clone());
        let out = scn.run(t.clone(), false);
        if has_sig(&out, sig) {
            // keep only what was actually consumed
            Some(out.tape)
        } else {
            None
        }
    };
    // normalise first
    if let Some(t) = attempt(&best, &mut tries) {
        best = t;
    } else {
        return (best, tries);
    }
    let mut improved = true;
    while improved && start.elapsed() < budget {
        improved = false;
        for lane in 0..NLANES {
            // truncate from the end (suffix becomes zeros)
            let mut keep = best.lanes[lane].len();
            let mut stepsz = keep / 2;
            while stepsz > 0 && start.elapsed() < budget {
                if keep >= stepsz {
                    let mut c = best.clone();
                    c.lanes[lane].truncate(keep - stepsz);
                    if let Some(t) = attempt(&c, &mut tries) {
                        if t.weight() < best.weight() || t.total_len() < best.total_len() {
                            best = t;
                            improved = true;
                        }
                        keep = best.lanes[lane].len().min(keep - stepsz);
                        continue;
                    }
                }
                stepsz /= 2;
            }
            // zero blocks / delete blocks
            for bs in [64usize, 16, 4, 1] {
                let mut i = 0;
                while i < best.lanes[lane].len() && start.elapsed() < budget {
                    let end = (i + bs).min(best.lanes[lane].len());
                    if best.lanes[lane][i..end].iter().any(|v| *v != 0) {
                        let mut c = best.clone();
                        for v in &mut c.lanes[lane][i..end] {
                            *v = 0;
                        }
                        if let Some(t) = attempt(&c, &mut tries) {
                            if t.weight() < best.weight() {
                                best = t;
                                improved = true;
                                continue;
                            }
                        }
                        let mut c = best.clone();
                        c.lanes[lane].drain(i..end);
                        if let Some(t) = attempt(&c, &mut tries) {
                            if t.weight() < best.weight() {
                                best = t;
                                improved = true;
                                continue;
                            }
                        }
                    }
                    i += bs;
                }
            }
            // halve values
            let mut i = 0;
            while i < best.lanes[lane].len() && start.elapsed() < budget {
                let v = best.lanes[lane][i];
                if v > 1 {
                    let mut c = best.clone();
                    c.lanes[lane][i] = v / 2;
                    if let Some(t) = attempt(&c, &mut tries) {
                        if t.weight() < best.weight() {
                            best = t;
                            improved = true;
                            continue;
                        }
                    }
                    let mut c = best.clone();
                    c.lanes[lane][i] = 1;
                    if let Some(t) = attempt(&c, &mut tries) {
                        if t.weight() < best.weight() {
                            best = t;
                            improved = true;
                        }
                    }
                }
                i += 1;
            }
        }
    }
    (best, tries)
}

fn tape_json(t: &TapeData) -> serde_json::Value {
    let mut m = serde_json::Map::new();
    for l in 0..NLANES {
        // trim trailing zeros: an exhausted lane reads as zeros anyway
        let mut v = t.lanes[l].clone();
        while v.last() == Some(&0) {
            v.pop();
        }
        m.insert(LANE_NAMES[l].to_string(), json!(v));
    }
    serde_json::Value::Object(m)
}

fn tape_from_json(v: &serde_json::Value) -> TapeData {
    let mut t = TapeData::empty();
    for l in 0..NLANES {
        if let Some(a) = v[LANE_NAMES[l]].as_array() {
            t.lanes[l] = a.iter().map(|x| x.as_u64().unwrap_or(0) as u32).collect();
        }
    }
    t
}

fn write_replay(root: &str, prop: &str, scn: &Scenario, seed: u64, idx: u64, v: &Violation, tape: &TapeData, orig_len: usize, tries: u64) -> String {
    let out = scn.run(Tape::replay(tape.clone()), true);
    let sig = v.signature();
    let vv = out.violations.iter().find(|x| x.signature() == sig).cloned().unwrap_or_else(|| v.clone());
    let file = format!("{}/replays/{}-{:016x}-{:016x}.json", root, prop, str_hash(&sig), seed);
    let j = json!({
        "property": prop,
        "scenario": scn.name(),
        "seed": seed,
        "run_index": idx,
        "signature": sig,
        "message": vv.msg,
        "step": vv.step,
        "log_hash": format!("{:016x}", out.log_hash),
        "tape": tape_json(&out.tape),
        "tape_len_original": orig_len,
        "tape_len_minimised": out.tape.total_len(),
        "minimiser_runs": tries,
        "faults_fired": out.faults.0,
        "outcome": out.outcome,
        "trace_tail": out.trace_tail,
        "case": out.sample,
    });
    let _ = std::fs::create_dir_all(format!("{}/replays", root));
    std::fs::write(&file, serde_json::to_string_pretty(&j).unwrap()).expect("write replay file");
    file
}

fn level_of(prop: &str) -> &'static str {
    if prop == "C07" {
        "fault_enumeration"
    } else {
        "exploration"
    }
}

fn cmd_check(root: &str, prop: &str, tier: &str) -> i32 {
    let verif_seed: u64 = std::env::var("VERIF_SEED").ok().and_then(|s| s.parse().ok()).unwrap_or(1);
    let workers: usize = std::env::var("H2SIM_WORKERS").ok().and_then(|s| s.parse().ok()).unwrap_or_else(|| std::thread::available_parallelism().map(|n| n.get()).unwrap_or(8));
    let entries = entries_for(prop);
    if entries.is_empty() {
        eprintln!("no scenarios registered for {}", prop);
        return 2;
    }
    let known = load_known(root);
    let budget_s: u64 = std::env::var("H2SIM_BUDGET_S").ok().and_then(|s| s.parse().ok()).unwrap_or(if tier == "quick" { 240 } else { 2400 });
    let start = Instant::now();
    let deadline = start + Duration::from_secs(budget_s);
    let scale: f64 = std::env::var("H2SIM_SCALE").ok().and_then(|s| s.parse().ok()).unwrap_or(1.0);
    let mut agg = Agg::new();
    let mut per_scn = Vec::new();
    for e in &entries {
        let n = ((if tier == "quick" { e.quick } else { e.thorough }) as f64 * scale) as u64;
        if n == 0 {
            continue;
        }
        let before = agg.runs;
        let t0 = Instant::now();
        run_entry(prop, &e.scenario, n.max(1), verif_seed, workers, deadline, &mut agg, &known);
        per_scn.push(json!({"scenario": e.scenario.name(), "topology": e.scenario.topology(), "planned": n, "ran": agg.runs - before, "wall_s": t0.elapsed().as_secs_f64()}));
    }
    // violations: minimise and write replay files (at most a few distinct signatures)
    let mut exit = 0;
    let mut reported = BTreeSet::new();
    let mut vio_json = Vec::new();
    let viols = std::mem::take(&mut agg.violations);
    for (scn_name, idx, seed, v, tape) in viols.iter() {
        let sig = v.signature();
        if !reported.insert(sig.clone()) {
            continue;
        }
        if reported.len() > 5 {
            break;
        }
        let scn = scenario_by_name(scn_name).unwrap();
        let orig = tape.total_len();
        let (min, tries) = minimise(&scn, tape.clone(), &sig, Duration::from_secs(if tier == "quick" { 15 } else { 60 }));
        let file = write_replay(root, prop, &scn, *seed, *idx, v, &min, orig, tries);
        println!("VIOLATION property={} replay={}", prop, file);
        println!("  signature: {}", sig);
        println!("  {}", v.msg.chars().take(600).collect::<String>());
        vio_json.push(json!({"signature": sig, "replay": file, "message": v.msg}));
        exit = 1;
    }
    for (id, n) in &agg.known_hits {
        if let Some(k) = known.iter().find(|k| &k.id == id) {
            println!("KNOWN-FINDING: property={} {} [{}; hit in {} run(s)]", prop, k.what, k.id, n);
        }
    }
    if agg.determinism_mismatches > 0 {
        eprintln!("harness error: {} determinism mismatches", agg.determinism_mismatches);
        exit = 2;
    }
    let wall = start.elapsed().as_secs_f64();
    let planned: u64 = entries.iter().map(|e| ((if tier == "quick" { e.quick } else { e.thorough }) as f64 * scale) as u64).sum();
    let zero_probes: Vec<&str> = vec![];
    let ev = json!({
        "property_id": prop,
        "tier": tier,
        "seed": verif_seed,
        "level": level_of(prop),
        "wall_s": wall,
        "violations": vio_json.len(),
        "coverage": {
            "evaluations": agg.runs,
            "distinct_nontrivial": agg.triples.len(),
            "rule": "One evaluation = one simulated run: endpoint configurations, application programs, transport behaviour, faults and the complete task schedule are drawn from a seeded decision tape (seed = mix(VERIF_SEED, scenario, run index)). A run is non-trivial if it completed at least one stream in both directions or ran more than 50 scheduler steps; runs are distinct if their (schedule hash, set of fault kinds fired, workload hash) triples differ. Counted by the driver from the runs of this invocation.",
            "samples": agg.samples,
            "planned_runs": planned,
            "scenarios": per_scn,
            "runs_per_hour": if wall > 0.0 { (agg.runs as f64 / wall * 3600.0) as u64 } else { 0 },
            "seeds": format!("VERIF_SEED={} run indices 0..n per scenario", verif_seed),
            "sim_time_s": agg.sim_ns as f64 / 1e9,
            "steps": agg.steps,
            "wire_bytes": agg.bytes,
            "streams_completed": agg.streams_done,
            "faults_fired": agg.faults.0,
            "probes": agg.probes,
            "reach_gaps": zero_probes,
            "distinct_schedules": agg.scheds.len(),
            "distinct_states": agg.states.len(),
            "outcomes": agg.outcomes,
            "foreign_oracle_hits": agg.foreign,
            "known_findings_hit": agg.known_hits,
            "determinism_rechecks": {"n": agg.determinism_rechecks, "mismatches": agg.determinism_mismatches},
            "violations": vio_json,
            "components": {
                "real": ["h2 (all of src/**, built from /repo with feature verif)", "tokio-util FramedRead/LengthDelimitedCodec", "bytes", "http", "slab", "indexmap", "atomic-waker (behind pass-through shim)"],
                "simulated": ["transport (SimIo/SimNet)", "executor and task schedule", "clock (hook H1)", "applications (generated programs)"],
                "absent": ["tokio runtime", "sockets", "OS threads"],
            },
            "exhaustive": false,
        },
        "assumptions": [
            "the transport contract is a reliable ordered byte stream (TCP/TLS); the simulator fragments, delays, stalls, back-pressures, fails and closes it but never reorders or corrupts bytes on a healthy link",
            "interleavings are explored at poll / lock / atomic granularity (h2 is data-race free, all shared state is behind two mutexes and one atomic state machine)",
            "seeded sampling: a clean batch is evidence, not proof",
        ],
    });
    // (tools/try_patch.sh runs the checks against a deliberately broken tree: its evidence
    // must not replace that of /repo itself)
    let ev_dir = std::env::var("H2SIM_EVIDENCE_DIR").unwrap_or_else(|_| format!("{}/evidence", root));
    let _ = std::fs::create_dir_all(&ev_dir);
    std::fs::write(format!("{}/{}.json", ev_dir, prop), serde_json::to_string_pretty(&ev).unwrap()).expect("write evidence");
    println!(
        "{} {}: {} runs ({} planned), {} distinct non-trivial, {} steps, {:.1}s wall, violations={}, known-findings={}, foreign={:?}",
        prop,
        tier,
        agg.runs,
        planned,
        agg.triples.len(),
        agg.steps,
        wall,
        vio_json.len(),
        agg.known_hits.len(),
        agg.foreign
    );
    if exit == 0 && agg.runs < planned {
        // the property held on everything explored; the evidence file says how much that was
        eprintln!("note: only {} of {} planned runs fit in the time budget of {} s", agg.runs, planned, budget_s);
    }
    if exit == 0 && agg.runs == 0 {
        eprintln!("harness error: no run completed");
        return 2;
    }
    exit
}

fn cmd_replay(path: &str) -> i32 {
    let txt = match std::fs::read_to_string(path) {
        Ok(t) => t,
        Err(e) => {
            eprintln!("cannot read {}: {}", path, e);
            return 2;
        }
    };
    let v: serde_json::Value = serde_json::from_str(&txt).expect("replay json");
    let scn = match scenario_by_name(v["scenario"].as_str().unwrap_or("")) {
        Some(s) => s,
        None => {
            eprintln!("unknown scenario in replay file");
            return 2;
        }
    };
    let tape = tape_from_json(&v["tape"]);
    let out = scn.run(Tape::replay(tape), true);
    let sig = v["signature"].as_str().unwrap_or("");
    let hash = format!("{:016x}", out.log_hash);
    println!("replayed scenario={} steps={} outcome={} log_hash={}", scn.name(), out.steps, out.outcome, hash);
    for l in &out.trace_tail {
        println!("  {}", l);
    }
    for x in &out.violations {
        println!("  violation {}: {}", x.signature(), x.msg.chars().take(800).collect::<String>());
    }
    if has_sig(&out, sig) {
        if hash != v["log_hash"].as_str().unwrap_or("") {
            eprintln!("replay reproduced the violation but the event-log hash differs (recorded {}, now {}): the code under test changed or the harness is not deterministic", v["log_hash"], hash);
        }
        println!("VIOLATION property={} replay={}", v["property"].as_str().unwrap_or(""), path);
        1
    } else {
        println!("replay did NOT reproduce signature {}", sig);
        if out.violations.is_empty() {
            0
        } else {
            2
        }
    }
}

fn cmd_run(scn_name: &str, seed: u64, verbose: bool) -> i32 {
    let scn = scenario_by_name(scn_name).expect("scenario");
    let out = scn.run(Tape::from_seed(seed), true);
    println!("steps={} outcome={} bytes={:?} streams_done={} log_hash={:016x}", out.steps, out.outcome, out.bytes, out.streams_done, out.log_hash);
    println!("faults={:?}", out.faults.0);
    println!("probes={:?}", out.probes);
    if verbose {
        println!("{}", serde_json::to_string_pretty(&out.sample).unwrap());
        for l in &out.trace_tail {
            println!("  {}", l);
        }
    }
    for v in &out.violations {
        println!("VIOL {}: {}", v.signature(), v.msg);
    }
    0
}

/// Debug helper: run `n` seeds of a scenario and print the first runs whose violations
/// contain `needle`.
fn cmd_scan(scn_name: &str, n: u64, needle: &str, show: usize) -> i32 {
    let scn = scenario_by_name(scn_name).expect("scenario");
    let verif_seed: u64 = std::env::var("VERIF_SEED").ok().and_then(|s| s.parse().ok()).unwrap_or(1);
    let mut shown = 0;
    let mut counts: BTreeMap<String, u64> = BTreeMap::new();
    for i in 0..n {
        let seed = run_seed(verif_seed, &scn, i);
        let out = scn.run(Tape::from_seed(seed), false);
        for v in &out.violations {
            *counts.entry(format!("{}/{}", v.prop, v.oracle)).or_insert(0) += 1;
        }
        if let Some(v) = out.violations.iter().find(|v| v.signature().contains(needle)) {
            if shown < show {
                shown += 1;
                println!("seed {} (idx {}): {} :: {}", seed, i, v.signature(), v.msg.chars().take(700).collect::<String>());
            }
        }
    }
    println!("{:?}", counts);
    0
}

fn cmd_selftest(what: &str) -> i32 {
    match what {
        "hpackref" => match hpackref::selftest_fixtures("/repo/fixtures/hpack") {
            Ok((s, c, f)) => {
                println!("hpackref: {} stories, {} cases, {} fields decoded identically to the third-party fixtures", s, c, f);
                0
            }
            Err(e) => {
                eprintln!("hpackref selftest failed: {}", e);
                2
            }
        },
        "determinism" => {
            let n: u64 = std::env::var("H2SIM_N").ok().and_then(|s| s.parse().ok()).unwrap_or(300);
            let mut bad = 0;
            let mut total = 0;
            for scn in props::all_scenarios() {
                // a sweep is thousands of runs in one
                let n = if matches!(scn, Scenario::T1Sweep(..)) { (n / 100).max(2) } else { n };
                if scn.name() == "t1-sweep-full" {
                    continue;
                }
                let res: Vec<(u64, u64)> = {
                    let results = Mutex::new(Vec::new());
                    let next = AtomicU64::new(0);
                    std::thread::scope(|sc| {
                        for _ in 0..16 {
                            sc.spawn(|| loop {
                                let i = next.fetch_add(1, Ordering::Relaxed);
                                if i >= n {
                                    break;
                                }
                                let o = scn.run(Tape::from_seed(run_seed(7, &scn, i)), false);
                                results.lock().unwrap().push((i, o.log_hash));
                            });
                        }
                    });
                    let mut r = results.into_inner().unwrap();
                    r.sort();
                    r
                };
                // second pass single-threaded, different order
                for (i, h) in res.iter().rev() {
                    let o = scn.run(Tape::from_seed(run_seed(7, &scn, *i)), false);
                    total += 1;
                    if o.log_hash != *h {
                        bad += 1;
                        eprintln!("determinism mismatch: scenario {} idx {}", scn.name(), i);
                    }
                }
                let mut hh = 0u64;
                for (_, h) in &res {
                    hh ^= *h;
                }
                println!("scenario {}: {} runs, digest {:016x}", scn.name(), res.len(), hh);
            }
            println!("determinism: {} runs compared, {} mismatches", total, bad);
            if bad == 0 {
                0
            } else {
                2
            }
        }
        _ => {
            eprintln!("unknown selftest");
            2
        }
    }
}

fn main() {
    trace::install_from_env();
    if std::env::var_os("H2SIM_TRACE").is_some() {
        exec::TRACE_ON.store(true, Ordering::Relaxed);
    }
    let args: Vec<String> = std::env::args().collect();
    let root = std::env::var("H2SIM_ROOT").unwrap_or_else(|_| "/verif".to_string());
    let code = match args.get(1).map(|s| s.as_str()) {
        Some("check") => cmd_check(&root, &args[2], args.get(3).map(|s| s.as_str()).unwrap_or("quick")),
        Some("replay") => cmd_replay(&args[2]),
        Some("run") => cmd_run(&args[2], args.get(3).and_then(|s| s.parse().ok()).unwrap_or(1), args.get(4).is_some()),
        Some("scan") => cmd_scan(&args[2], args[3].parse().unwrap(), &args[4], args.get(5).and_then(|s| s.parse().ok()).unwrap_or(3)),
        Some("selftest") => cmd_selftest(args.get(2).map(|s| s.as_str()).unwrap_or("")),
        _ => {
            eprintln!("usage: h2sim check <ID> quick|thorough | replay <file> | run <scenario> <seed> [v] | selftest hpackref|determinism");
            2
        }
    };
    std::process::exit(code);
}
