//! Optional capture of h2's own `tracing` output (debugging aid only; never influences a run).
use std::fmt::Write as _;
use tracing::field::{Field, Visit};
use tracing::span::{Attributes, Id, Record};
use tracing::{Event, Level, Metadata, Subscriber};

pub struct StderrSub {
    pub max: Level,
}

struct V(String);
impl Visit for V {
    fn record_debug(&mut self, field: &Field, value: &dyn std::fmt::Debug) {
        if field.name() == "message" {
            let _ = write!(self.0, "{:?} ", value);
        } else {
            let _ = write!(self.0, "{}={:?} ", field.name(), value);
        }
    }
}

impl Subscriber for StderrSub {
    fn enabled(&self, m: &Metadata<'_>) -> bool {
        *m.level() <= self.max
    }
    fn new_span(&self, _: &Attributes<'_>) -> Id {
        Id::from_u64(1)
    }
    fn record(&self, _: &Id, _: &Record<'_>) {}
    fn record_follows_from(&self, _: &Id, _: &Id) {}
    fn event(&self, e: &Event<'_>) {
        let mut v = V(String::new());
        e.record(&mut v);
        let who = crate::exec::CURRENT_TASK.with(|c| c.borrow().clone());
        eprintln!("[h2 {} {}] {} {}", e.metadata().level(), who, e.metadata().target(), v.0);
    }
    fn enter(&self, _: &Id) {}
    fn exit(&self, _: &Id) {}
}

pub fn install_from_env() {
    if let Ok(l) = std::env::var("H2SIM_TRACE") {
        let max = match l.as_str() {
            "trace" => Level::TRACE,
            _ => Level::DEBUG,
        };
        let _ = tracing::subscriber::set_global_default(StderrSub { max });
    }
}
