//! Topology T2: one real h2 endpoint E against the scripted peer.

use crate::cfg::{draw_epcfg, gen_headers, CfgSpace, EpCfg};
use crate::exec::{Entity, Exec, ExecCfg, StepOutcome};
use crate::hist::{canon, show_fields, Fields, Hist, Violation};
use crate::hpackref::{enc_int, enc_str, huff_encode, EncChoice, Repr};
use crate::monitor::Monitor;
use crate::net::{IoCfg, Net};
use crate::peer::*;
use crate::prog::*;
use crate::t1::{check_fidelity, client_main, fnv, server_main, CtlAction, FatalFault, RunOut, Shared, SharedRef, T1Plan};
use crate::tape::{Lane, Tape};
use crate::wire::*;
use std::collections::BTreeMap;
use std::sync::{Arc, Mutex};

#[derive(Debug, Clone, Copy, PartialEq, Eq)]
pub enum T2Kind {
    /// legal traffic with unusual-but-legal behaviour sprinkled in
    Legal,
    /// legal prefix, one protocol violation, legal follow-up
    Violation,
    /// malformed HTTP messages (RFC 9113 section 8)
    Malformed,
    /// header blocks with every representation choice, split at any offset; invalid blocks
    Hpack,
    /// hostile floods against finite limits
    Flood,
    /// raw corruption of an otherwise legal byte stream
    Corrupt,
    /// SETTINGS / PING bursts while E's writer is blocked
    AckPressure,
    /// E (server) shuts down gracefully at an arbitrary moment of a legal exchange while
    /// keep-alive pings are in flight; the peer never closes first
    Graceful,
    /// E (server) pushes while its writer is blocked; the client says GOAWAY in the meantime
    PushGoaway,
    /// discard paths followed by a window exhaustion probe
    Exhaust,
}

#[derive(Debug, Clone)]
pub struct T2Profile {
    pub name: &'static str,
    pub kind: T2Kind,
    /// Some(true): E is the client; Some(false): E is the server; None: drawn
    pub e_client: Option<bool>,
    pub max_steps: u64,
    pub io_noise: bool,
}

#[derive(Debug, Clone, PartialEq, Eq)]
pub enum Expect {
    /// nothing may be penalised
    Legal,
    /// E must end the connection with GOAWAY(code != 0)
    Conn(&'static str),
    /// at least RST_STREAM on this stream (a connection error also satisfies it)
    Stream(u32, &'static str),
    /// the message on this stream must not be delivered; stream or connection error
    NotDelivered(u32, &'static str),
    /// the reaction is left open; only the no-panic / no-wedge oracles apply
    Unspecified(&'static str),
}

pub struct T2Plan {
    pub e_client: bool,
    pub ecfg: EpCfg,
    pub peer_settings: Vec<(u16, u32)>,
    pub grant: Grant,
    pub script: Vec<PeerOp>,
    pub resp_plans: Vec<RespPlan>,
    pub cprogs: Vec<ClientStreamProg>,
    pub sprogs: Vec<ServerStreamProg>,
    pub expect: Expect,
    pub io: IoCfg,
    pub caps: [(usize, usize); 2],
    pub exec: ExecCfg,
    pub accept_delay: u32,
    /// corrupt the peer's byte stream at this offset (Corrupt kind)
    pub corrupt: Vec<(u64, u8)>,
    pub stall_e_writes: bool,
    pub label: String,
    pub probe_stream: Option<u32>,
    pub flood: Option<&'static str>,
    /// the follow-up stream that must still work after a contained stream error
    pub followup: Option<u32>,
    /// control actions of E's application (Graceful kind)
    pub e_actions: Vec<CtlAction>,
    /// user pings sent by E's application: (count, yields between pings)
    pub e_pings: Option<(u32, u32)>,
    /// streams the peer opens only after the shutdown handshake has completed
    pub late_streams: Vec<u32>,
    /// the (hostile) peer never acknowledges E's SETTINGS
    pub peer_withholds_settings_ack: bool,
}

fn simple_server_prog(t: &Tape) -> ServerStreamProg {
    ServerStreamProg {
        read: ReadPlan { release: *t.pick(Lane::Work, &[Release::Immediate, Release::WhenBlocked, Release::Halves]), stop_after: None, probe_end_stream: true, skip_trailers: false },
        informational: vec![],
        status: 200,
        headers: gen_headers(t, 3, 300),
        sensitive_mod: 0,
        eos_on_headers: t.chance(Lane::Work, 1, 2),
        body: BodyPlan { chunks: vec![Chunk { len: t.draw(Lane::Work, 3000) as usize, mode: ChunkMode::Direct }], end: EndMode::OnLastData, abort: Abort::None, wait_reset: false, late_ops: 0 },
        pushes: vec![],
        respond_delay: *t.pick(Lane::Work, &[0u32, 1, 5]),
        refuse: None,
        drop_without_response: false,
        late_informational: false,
        late_push: false,
        push_mode: 0,
        push_defer: 0,
    }
}

fn simple_client_prog(t: &Tape, idx: usize) -> ClientStreamProg {
    ClientStreamProg {
        idx,
        start_delay: *t.pick(Lane::Work, &[0u32, 1, 5, 20]),
        poll_ready_first: t.chance(Lane::Work, 1, 2),
        method: *t.pick(Lane::Work, &["GET", "POST"]),
        path: format!("/c{}/{}", idx, t.draw(Lane::Work, 1000)),
        headers: gen_headers(t, 3, 300),
        sensitive_mod: 0,
        eos_on_headers: t.chance(Lane::Work, 1, 2),
        body: BodyPlan { chunks: vec![Chunk { len: t.draw(Lane::Work, 3000) as usize, mode: ChunkMode::Direct }], end: EndMode::OnLastData, abort: Abort::None, wait_reset: false, late_ops: 0 },
        read: ReadPlan { release: *t.pick(Lane::Work, &[Release::Immediate, Release::WhenBlocked, Release::Halves]), stop_after: None, probe_end_stream: true, skip_trailers: false },
        poll_informational: t.chance(Lane::Work, 1, 2),
        take_pushes: true,
        drop_response_future: false,
        hold_clone: false,
    }
}

fn gen_resp_plan(t: &Tape, exotic: bool, e_iws: usize, pushes: bool) -> RespPlan {
    let eos = t.chance(Lane::Peer, 1, 3);
    let mut informational = vec![];
    for _ in 0..t.draw(Lane::Peer, 3) {
        informational.push(response_msg(t, *t.pick(Lane::Peer, &[103u16, 100, 199]), &gen_headers(t, 2, 200), exotic));
    }
    let mut pp = vec![];
    if pushes {
        for i in 0..t.draw(Lane::Peer, 3) {
            let b = if t.chance(Lane::Peer, 1, 2) { Some(gen_bodyspec(t, 2000, true, e_iws)) } else { None };
            pp.push((request_msg(t, &format!("/pushed/{}", i), "GET", &gen_headers(t, 2, 200), exotic), response_msg(t, 200, &gen_headers(t, 2, 200), exotic), b));
        }
    }
    RespPlan {
        informational,
        head: response_msg(t, *t.pick(Lane::Peer, &[200u16, 404, 500, 204]), &gen_headers(t, 4, 600), exotic),
        eos,
        body: if eos { None } else { Some(gen_bodyspec(t, 20_000, true, e_iws)) },
        delay: *t.pick(Lane::Peer, &[0u32, 1, 5]),
        pushes: pp,
    }
}

/// Legal-but-unusual frames the peer may send at any point between header blocks.
fn unusual_item(t: &Tape, known_streams: &[u32], next_id: u32) -> Vec<RawFrame> {
    let any_sid = |t: &Tape| -> u32 {
        if known_streams.is_empty() || t.chance(Lane::Peer, 1, 3) {
            // an idle or never-used id
            next_id + 2 * t.draw(Lane::Peer, 5)
        } else {
            *t.pick(Lane::Peer, known_streams)
        }
    };
    match t.draw(Lane::Peer, 9) {
        0 => {
            let sid = any_sid(t);
            let mut dep = t.draw(Lane::Peer, 12);
            if dep == sid {
                dep = 0;
            }
            vec![priority(sid, dep, t.chance(Lane::Peer, 1, 2), t.draw(Lane::Peer, 256) as u8)]
        }
        1 => {
            // unknown frame type, any flags, any stream
            let ty = 10 + t.draw(Lane::Peer, 240) as u8;
            let len = t.draw(Lane::Peer, 64) as usize;
            vec![RawFrame::new(ty, t.draw(Lane::Peer, 256) as u8, if t.chance(Lane::Peer, 1, 2) { 0 } else { any_sid(t) }, vec![0xab; len])]
        }
        2 => vec![settings_frame(&[(0x0a + t.draw(Lane::Peer, 200) as u16, t.draw(Lane::Peer, 1_000_000))])],
        3 => vec![settings_frame(&[])],
        4 => (0..(1 + t.draw(Lane::Peer, 4))).map(|i| ping([i as u8, 1, 2, 3, 4, 5, 6, t.draw(Lane::Peer, 256) as u8], false)).collect(),
        5 => {
            // reserved bit set / undefined flags on PING
            let mut f = ping([9; 8], false);
            f.r_bit = true;
            f.flags |= 0xf0 & (t.draw(Lane::Peer, 256) as u8) & !F_ACK;
            vec![f]
        }
        6 => vec![window_update(0, 1 + t.draw(Lane::Peer, 1000))],
        7 => vec![settings_frame(&[(S_MAX_CONCURRENT_STREAMS, 100 + t.draw(Lane::Peer, 10)), (S_MAX_HEADER_LIST_SIZE, 1 << 20)])],
        _ => vec![priority(any_sid(t), 0, false, 0)],
    }
}

pub fn draw_t2(t: &Tape, p: &T2Profile) -> T2Plan {
    let e_client = p.e_client.unwrap_or_else(|| t.chance(Lane::Cfg, 1, 2));
    let mut sp = CfgSpace::all();
    sp.tiny_windows = false;
    sp.send_buffer = false;
    let mut ecfg = draw_epcfg(t, &sp);
    ecfg.initial_max_send_streams = None;
    let legalish = matches!(p.kind, T2Kind::Legal | T2Kind::Violation | T2Kind::Malformed | T2Kind::Hpack | T2Kind::AckPressure | T2Kind::Exhaust | T2Kind::Graceful);
    if legalish {
        ecfg.data_frame_budget = Some(usize::MAX / 4);
        ecfg.max_local_error_reset_streams = Some(None);
        // the scripted peer opens its streams without waiting for E's SETTINGS; refusals and
        // what may follow them (frames on a refused, never remembered stream) are exercised
        // in T1 and in the flood scenarios, not here
        ecfg.max_concurrent_streams = None;
    }
    if ecfg.initial_window_size.map(|v| v < 100).unwrap_or(false) {
        ecfg.initial_window_size = Some(999);
    }
    if e_client {
        ecfg.enable_push = *t.pick(Lane::Cfg, &[None, Some(true), Some(false)]);
    }
    let peer_iws = *t.pick(Lane::Peer, &[65_535u32, 16_384, 1000, 1 << 20, 100]);
    let mut peer_settings: Vec<(u16, u32)> = vec![];
    if peer_iws != 65_535 {
        peer_settings.push((S_INITIAL_WINDOW_SIZE, peer_iws));
    }
    match t.draw(Lane::Peer, 4) {
        1 => peer_settings.push((S_HEADER_TABLE_SIZE, *t.pick(Lane::Peer, &[0u32, 64, 4096, 65_536]))),
        2 => peer_settings.push((S_MAX_FRAME_SIZE, *t.pick(Lane::Peer, &[16_384u32, 16_385, 65_536]))),
        _ => {}
    }
    if !e_client && t.chance(Lane::Peer, 1, 3) {
        peer_settings.push((S_ENABLE_PUSH, 0));
    }
    let grant = *t.pick(Lane::Peer, &[Grant::Immediate, Grant::Half, Grant::Immediate]);
    let mut exec = ExecCfg::default();
    exec.max_steps = p.max_steps;
    exec.link_frag_pct = if p.io_noise { *t.pick(Lane::Cfg, &[0u32, 20, 80]) } else { 0 };
    exec.clock_jump_pct = *t.pick(Lane::Cfg, &[0u32, 1, 10]);
    let io = if p.io_noise {
        IoCfg {
            frag_read: *t.pick(Lane::Cfg, &[0u32, 10, 50, 100]),
            frag_write: *t.pick(Lane::Cfg, &[0u32, 10, 50]),
            pend_read: *t.pick(Lane::Cfg, &[0u32, 5, 25]),
            pend_write: *t.pick(Lane::Cfg, &[0u32, 5, 25]),
            pend_flush: *t.pick(Lane::Cfg, &[0u32, 10]),
            pend_shutdown: *t.pick(Lane::Cfg, &[0u32, 30]),
            vectored: t.chance(Lane::Cfg, 1, 2),
            pend_write_alt: t.chance(Lane::Cfg, 1, 6),
        }
    } else {
        IoCfg::benign()
    };
    let caps_opts: &[usize] = &[1 << 20, 65_536, 4096, 512];
    let caps = [(*t.pick(Lane::Cfg, caps_opts), *t.pick(Lane::Cfg, caps_opts)), (*t.pick(Lane::Cfg, caps_opts), *t.pick(Lane::Cfg, caps_opts))];
    let e_iws = ecfg.iws() as usize;
    let mut plan = T2Plan {
        e_client,
        ecfg,
        peer_settings,
        grant,
        script: vec![],
        resp_plans: vec![],
        cprogs: vec![],
        sprogs: vec![],
        expect: Expect::Legal,
        io,
        caps,
        exec,
        accept_delay: 0,
        corrupt: vec![],
        stall_e_writes: false,
        label: String::new(),
        probe_stream: None,
        flood: None,
        followup: None,
        e_actions: vec![],
        e_pings: None,
        late_streams: vec![],
        peer_withholds_settings_ack: false,
    };
    let exotic = matches!(p.kind, T2Kind::Hpack);
    // ---- the legal skeleton
    let n = 1 + t.draw(Lane::Work, 4) as usize;
    let mut known: Vec<u32> = vec![];
    let mut next_id: u32 = 1;
    if e_client {
        for i in 0..n {
            plan.cprogs.push(simple_client_prog(t, i));
        }
        for _ in 0..n {
            let pushes = plan.ecfg.enable_push != Some(false) && matches!(p.kind, T2Kind::Legal | T2Kind::Hpack) && t.chance(Lane::Peer, 1, 3);
            plan.resp_plans.push(gen_resp_plan(t, exotic, e_iws, pushes));
        }
    } else {
        for _ in 0..8 {
            plan.sprogs.push(simple_server_prog(t));
        }
        for i in 0..n {
            let sid = next_id;
            next_id += 2;
            known.push(sid);
            let eos = t.chance(Lane::Peer, 1, 3);
            let head = request_msg(t, &format!("/p{}/{}", i, t.draw(Lane::Peer, 1000)), *t.pick(Lane::Peer, &["GET", "POST", "PUT"]), &gen_headers(t, 4, 600), exotic);
            let body = if eos { None } else { Some(gen_bodyspec(t, 20_000, true, e_iws)) };
            plan.script.push(PeerOp::Open { sid, head, eos, body });
            if matches!(p.kind, T2Kind::Legal) && t.chance(Lane::Peer, 1, 2) {
                plan.script.push(PeerOp::Frames(unusual_item(t, &known, next_id)));
            }
            if t.chance(Lane::Peer, 1, 3) {
                plan.script.push(PeerOp::Pause(t.draw(Lane::Peer, 20)));
            }
        }
    }
    match p.kind {
        T2Kind::Legal => {
            plan.label = "legal".into();
            if e_client {
                // unusual items are sent between responses
                for _ in 0..t.draw(Lane::Peer, 4) {
                    plan.script.push(PeerOp::Pause(t.draw(Lane::Peer, 30)));
                    plan.script.push(PeerOp::Frames(unusual_item(t, &[1, 3, 5], 2)));
                }
            } else {
                plan.script.push(PeerOp::Drain);
                plan.script.push(PeerOp::Barrier);
                // late legal frames on finished streams
                for _ in 0..t.draw(Lane::Peer, 4) {
                    let sid = *t.pick(Lane::Peer, &known);
                    let f = match t.draw(Lane::Peer, 3) {
                        0 => window_update(sid, 1 + t.draw(Lane::Peer, 100)),
                        1 => rst_stream(sid, *t.pick(Lane::Peer, &[CANCEL, NO_ERROR, 0xffff_ffff])),
                        _ => priority(sid, 0, false, 16),
                    };
                    plan.script.push(PeerOp::Frames(vec![f]));
                }
                plan.script.push(PeerOp::Barrier);
                plan.script.push(PeerOp::Fin);
            }
        }
        T2Kind::Graceful => {
            plan.label = "graceful".into();
            // E's application: keep-alive pings throughout, graceful_shutdown at some moment
            if t.chance(Lane::Work, 3, 4) {
                plan.e_pings = Some((10 + t.draw(Lane::Work, 60), *t.pick(Lane::Work, &[0u32, 0, 1, 5, 30])));
            }
            plan.e_actions.push(CtlAction { side: 1, after_yields: *t.pick(Lane::Work, &[0u32, 3, 10, 30, 100, 300, 1000]), ctl: Ctl::Graceful });
            if t.chance(Lane::Work, 1, 4) {
                plan.e_actions.push(CtlAction { side: 1, after_yields: t.draw(Lane::Work, 200), ctl: Ctl::Graceful });
            }
            // more streams, spread out, so that the GOAWAYs land between and inside them
            for i in 0..t.draw(Lane::Peer, 5) {
                plan.script.push(PeerOp::Pause(t.draw(Lane::Peer, 60)));
                let sid = next_id;
                next_id += 2;
                known.push(sid);
                let eos = t.chance(Lane::Peer, 1, 2);
                let head = request_msg(t, &format!("/g{}/{}", i, t.draw(Lane::Peer, 1000)), *t.pick(Lane::Peer, &["GET", "POST"]), &gen_headers(t, 3, 300), false);
                let body = if eos { None } else { Some(gen_bodyspec(t, 20_000, true, e_iws)) };
                plan.script.push(PeerOp::Open { sid, head, eos, body });
            }
            plan.script.push(PeerOp::Drain);
            // quiescent: the shutdown handshake is over
            plan.script.push(PeerOp::Barrier);
            for _ in 0..t.draw(Lane::Peer, 3) {
                let sid = next_id;
                next_id += 2;
                plan.late_streams.push(sid);
                let eos = t.chance(Lane::Peer, 1, 2);
                let head = request_msg(t, "/late", "GET", &vec![], false);
                let body = if eos { None } else { Some(gen_bodyspec(t, 2000, true, e_iws)) };
                plan.script.push(PeerOp::Open { sid, head, eos, body });
            }
            plan.script.push(PeerOp::Barrier);
            // no Fin: the peer keeps its side open; E has to close
        }
        T2Kind::PushGoaway => {
            plan.label = "push-goaway".into();
            plan.expect = Expect::Unspecified("GOAWAY from the client while pushes are queued: anything orderly");
            // E's handlers push; its writer is stalled (healed by the driver at the first
            // quiescence), so PUSH_PROMISE frames and responses stay queued
            plan.stall_e_writes = t.chance(Lane::Peer, 3, 4);
            plan.caps[1] = (*t.pick(Lane::Cfg, &[256usize, 4096, 65_536]), *t.pick(Lane::Cfg, &[256usize, 4096]));
            for sp in plan.sprogs.iter_mut() {
                for i in 0..(1 + t.draw(Lane::Work, 3)) {
                    sp.pushes.push(PushProg {
                        head: gen_headers(t, 2, 200),
                        path: format!("/pushed/{}/{}", i, t.draw(Lane::Work, 1000)),
                        resp_status: 200,
                        resp_headers: gen_headers(t, 2, 200),
                        eos_on_headers: t.chance(Lane::Work, 1, 2),
                        body: BodyPlan { chunks: vec![Chunk { len: t.draw(Lane::Work, 3000) as usize, mode: ChunkMode::Direct }], end: EndMode::OnLastData, abort: Abort::None, wait_reset: false, late_ops: 0 },
                    });
                }
                sp.respond_delay = *t.pick(Lane::Work, &[0u32, 1, 5, 30]);
                sp.body = BodyPlan { chunks: vec![Chunk { len: *t.pick(Lane::Work, &[0usize, 100, 20_000, 60_000]), mode: ChunkMode::Direct }], end: EndMode::OnLastData, abort: Abort::None, wait_reset: false, late_ops: 0 };
            }
            plan.script.push(PeerOp::Pause(t.draw(Lane::Peer, 40)));
            let code = *t.pick(Lane::Peer, &[NO_ERROR, NO_ERROR, PROTOCOL_ERROR, CANCEL, 0xdead_beef]);
            let last = *t.pick(Lane::Peer, &[0u32, 0, 2, 4, 0x7fff_ffff]);
            plan.script.push(PeerOp::GoAway(last, code, vec![]));
            plan.script.push(PeerOp::Barrier);
            if t.chance(Lane::Peer, 1, 2) {
                plan.script.push(PeerOp::GoAway(0, code, vec![]));
            }
            plan.script.push(PeerOp::Barrier);
            plan.script.push(PeerOp::Fin);
        }
        T2Kind::Hpack => {
            plan.label = "hpack-valid".into();
            if !e_client {
                plan.script.push(PeerOp::Drain);
                plan.script.push(PeerOp::Barrier);
                plan.script.push(PeerOp::Fin);
            }
            if t.chance(Lane::Peer, 1, 3) {
                gen_hpack_invalid(t, &mut plan, &mut next_id);
            }
        }
        T2Kind::Violation => {
            if !e_client {
                plan.script.push(PeerOp::Drain);
            }
            plan.script.push(PeerOp::Barrier);
            plan.script.push(PeerOp::Mark("violation"));
            gen_violation(t, &mut plan, &known, &mut next_id);
            plan.script.push(PeerOp::Barrier);
            if !e_client {
                // follow-up stream: must still work if the error was confined to one stream
                let sid = next_id;
                next_id += 2;
                plan.followup = Some(sid);
                let head = request_msg(t, "/followup", "GET", &vec![], false);
                plan.script.push(PeerOp::Open { sid, head, eos: true, body: None });
                plan.script.push(PeerOp::Barrier);
                plan.script.push(PeerOp::Fin);
            }
        }
        T2Kind::Malformed => {
            if !e_client {
                plan.script.push(PeerOp::Drain);
                plan.script.push(PeerOp::Barrier);
                plan.script.push(PeerOp::Mark("malformed"));
                gen_malformed_request(t, &mut plan, &mut next_id);
                plan.script.push(PeerOp::Barrier);
                let sid = next_id;
                next_id += 2;
                plan.followup = Some(sid);
                let head = request_msg(t, "/followup", "GET", &vec![], false);
                plan.script.push(PeerOp::Open { sid, head, eos: true, body: None });
                plan.script.push(PeerOp::Barrier);
                plan.script.push(PeerOp::Fin);
            } else {
                gen_malformed_response(t, &mut plan);
            }
        }
        T2Kind::Corrupt => {
            plan.label = "corrupt".into();
            plan.expect = Expect::Unspecified("raw corruption");
            let k = 1 + t.draw(Lane::Fault, 3);
            for _ in 0..k {
                let at = match t.draw(Lane::Fault, 4) {
                    0 => t.draw(Lane::Fault, 40) as u64,
                    1 => t.draw(Lane::Fault, 300) as u64,
                    2 => t.draw(Lane::Fault, 3000) as u64,
                    _ => t.draw(Lane::Fault, 30_000) as u64,
                };
                plan.corrupt.push((at, 1 + t.draw(Lane::Fault, 255) as u8));
            }
            if !e_client {
                plan.script.push(PeerOp::Drain);
                plan.script.push(PeerOp::Barrier);
                plan.script.push(PeerOp::Fin);
            }
        }
        T2Kind::Flood | T2Kind::AckPressure | T2Kind::Exhaust => {
            // filled in by the specialised generators in t2x
            crate::t2x::gen_special(t, p.kind, &mut plan, &known, &mut next_id);
        }
    }
    plan
}

// --------------------------------------------------------------------------------------
// violations (RFC 9113 sections 4-6)

fn gen_violation(t: &Tape, plan: &mut T2Plan, known: &[u32], next_id: &mut u32) {
    let e_mfs = plan.ecfg.mfs();
    let e_iws = plan.ecfg.iws();
    let finished = known.first().copied().unwrap_or(1);
    let fresh = *next_id;
    let e_client = plan.e_client;
    let mut push = |plan: &mut T2Plan, label: &str, frames: Vec<RawFrame>, ex: Expect| {
        plan.label = label.to_string();
        plan.expect = ex;
        plan.script.push(PeerOp::Frames(frames));
    };
    let nclass = 30;
    let c = t.draw(Lane::Peer, nclass);
    match c {
        0 if e_mfs < (1 << 24) - 2000 => {
            // frame larger than E's advertised MAX_FRAME_SIZE: only the head (+ a few bytes) is sent
            let f = RawFrame::new(DATA, 0, finished, vec![0; 16]);
            plan.label = "oversize-frame-head-only".into();
            plan.expect = Expect::Conn("FRAME_SIZE_ERROR expected; decided on the head alone");
            plan.script.push(PeerOp::Raw(f.encode_with_len(e_mfs + 1 + t.draw(Lane::Peer, 1000))));
        }
        1 => push(plan, "ping-bad-length", vec![RawFrame::new(PING, 0, 0, vec![0; *t.pick(Lane::Peer, &[0usize, 7, 9, 16])])], Expect::Conn("PING length != 8")),
        2 => push(plan, "rst-bad-length", vec![RawFrame::new(RST_STREAM, 0, finished, vec![0; *t.pick(Lane::Peer, &[0usize, 3, 5, 8])])], Expect::Conn("RST_STREAM length != 4")),
        3 => push(plan, "window-update-bad-length", vec![RawFrame::new(WINDOW_UPDATE, 0, 0, vec![0, 0, 1])], Expect::Conn("WINDOW_UPDATE length != 4")),
        4 => push(plan, "settings-bad-length", vec![RawFrame::new(SETTINGS, 0, 0, vec![0; *t.pick(Lane::Peer, &[1usize, 5, 7, 11])])], Expect::Conn("SETTINGS length % 6 != 0")),
        5 => push(plan, "settings-ack-with-payload", vec![RawFrame::new(SETTINGS, F_ACK, 0, vec![0, 4, 0, 0, 0, 1])], Expect::Conn("SETTINGS ACK with payload")),
        6 => push(plan, "goaway-short", vec![RawFrame::new(GOAWAY, 0, 0, vec![0; 7])], Expect::Conn("GOAWAY shorter than 8")),
        7 => push(plan, "data-on-stream-0", vec![RawFrame::new(DATA, 0, 0, vec![1, 2, 3])], Expect::Conn("DATA on stream 0")),
        8 => {
            let mut block = vec![];
            let mut enc = crate::hpackref::RefEncoder::new(0);
            enc.field(&mut block, b":method", b"GET", EncChoice { repr: Repr::LitNoIndex, ..EncChoice::plain() });
            push(plan, "headers-on-stream-0", vec![RawFrame::new(HEADERS, F_END_HEADERS | F_END_STREAM, 0, vec![0x82, 0x87, 0x84])], Expect::Conn("HEADERS on stream 0"));
            let _ = block;
        }
        9 => push(plan, "rst-on-stream-0", vec![rst_stream(0, CANCEL)], Expect::Conn("RST_STREAM on stream 0")),
        10 => push(plan, "settings-on-stream", vec![RawFrame::new(SETTINGS, 0, finished, vec![])], Expect::Conn("SETTINGS on a non-zero stream")),
        11 => push(plan, "ping-on-stream", vec![RawFrame::new(PING, 0, finished, vec![0; 8])], Expect::Conn("PING on a non-zero stream")),
        12 => push(plan, "goaway-on-stream", vec![RawFrame::new(GOAWAY, 0, finished.max(1), vec![0, 0, 0, 0, 0, 0, 0, 0])], Expect::Conn("GOAWAY on a non-zero stream (RFC 9113 6.8)")),
        13 => {
            let (k, v, why) = *t.pick(
                Lane::Peer,
                &[
                    (S_ENABLE_PUSH, 2u32, "ENABLE_PUSH = 2"),
                    (S_INITIAL_WINDOW_SIZE, 0x8000_0000u32, "INITIAL_WINDOW_SIZE > 2^31-1"),
                    (S_MAX_FRAME_SIZE, 16_383u32, "MAX_FRAME_SIZE < 2^14"),
                    (S_MAX_FRAME_SIZE, 0u32, "MAX_FRAME_SIZE < 2^14"),
                    (S_MAX_FRAME_SIZE, 9u32, "MAX_FRAME_SIZE < 2^14"),
                    (S_MAX_FRAME_SIZE, 100u32, "MAX_FRAME_SIZE < 2^14"),
                    (S_MAX_FRAME_SIZE, 1u32 << 24, "MAX_FRAME_SIZE > 2^24-1"),
                ],
            );
            push(plan, "settings-invalid-value", vec![settings_frame(&[(k, v)])], Expect::Conn(why));
        }
        14 => push(plan, "settings-ack-unsolicited", vec![settings_ack()], Expect::Conn("SETTINGS ACK that answers nothing (property C14)")),
        15 => push(plan, "continuation-without-headers", vec![RawFrame::new(CONTINUATION, F_END_HEADERS, finished, vec![0x82])], Expect::Conn("CONTINUATION without an open header block")),
        16 => {
            // HEADERS without END_HEADERS followed by something that is not its CONTINUATION
            let sid = fresh;
            let h = RawFrame::new(HEADERS, F_END_STREAM, sid, vec![0x82, 0x87]);
            let other = match t.draw(Lane::Peer, 3) {
                0 => ping([1; 8], false),
                1 => RawFrame::new(CONTINUATION, F_END_HEADERS, sid + 2, vec![0x84]),
                _ => RawFrame::new(DATA, 0, finished, vec![]),
            };
            push(plan, "interleaved-header-block", vec![h, other], Expect::Conn("frame interleaved in a header block"));
        }
        17 => {
            if e_client {
                push(plan, "response-on-idle-stream", vec![RawFrame::new(HEADERS, F_END_HEADERS | F_END_STREAM, 101, vec![0x88])], Expect::Conn("HEADERS on a stream the client never opened"));
            } else {
                push(plan, "even-stream-id-from-client", vec![RawFrame::new(HEADERS, F_END_HEADERS | F_END_STREAM, fresh + 1, vec![0x82, 0x87, 0x84])], Expect::Conn("client opened an even stream id"));
            }
        }
        18 => {
            if !e_client && known.len() >= 1 {
                // open a high id, then a lower unused one
                let hi = fresh + 8;
                let lo = fresh + 2;
                let a = RawFrame::new(HEADERS, F_END_HEADERS | F_END_STREAM, hi, vec![0x82, 0x87, 0x84, 0x01, 0x01, b'a']);
                let b = RawFrame::new(HEADERS, F_END_HEADERS | F_END_STREAM, lo, vec![0x82, 0x87, 0x84, 0x01, 0x01, b'a']);
                *next_id = hi + 2;
                push(plan, "stream-id-decreasing", vec![a, b], Expect::Conn("new stream id lower than an earlier one"));
            } else {
                push(plan, "data-on-idle-stream", vec![data(if e_client { 101 } else { fresh + 20 }, b"x", false, None)], Expect::Conn("DATA on an idle stream"));
            }
        }
        19 => push(plan, "data-on-idle-stream", vec![data(if e_client { 101 } else { fresh + 20 }, b"x", false, None)], Expect::Conn("DATA on an idle stream")),
        20 => push(plan, "rst-on-idle-stream", vec![rst_stream(if e_client { 101 } else { fresh + 20 }, CANCEL)], Expect::Conn("RST_STREAM on an idle stream")),
        21 => push(plan, "window-update-on-idle-stream", vec![window_update(if e_client { 101 } else { fresh + 20 }, 10)], Expect::Conn("WINDOW_UPDATE on an idle stream")),
        22 => push(plan, "window-update-zero-conn", vec![window_update(0, 0)], Expect::Conn("WINDOW_UPDATE increment 0 on stream 0")),
        23 => push(plan, "window-update-overflow-conn", vec![window_update(0, 0x7fff_ffff)], Expect::Conn("connection window above 2^31-1")),
        24 => {
            if !e_client {
                let sid = fresh;
                *next_id = fresh + 2;
                let h = RawFrame::new(HEADERS, F_END_HEADERS, sid, vec![0x83, 0x87, 0x84, 0x01, 0x01, b'a']);
                let w = window_update(sid, 0);
                push(plan, "window-update-zero-stream", vec![h, w], Expect::Stream(sid, "WINDOW_UPDATE increment 0 on a stream"));
            } else {
                push(plan, "window-update-zero-conn", vec![window_update(0, 0)], Expect::Conn("WINDOW_UPDATE increment 0 on stream 0"));
            }
        }
        25 => {
            if !e_client {
                // DATA beyond the stream window
                let sid = fresh;
                *next_id = fresh + 2;
                // POST https://a/hold : the application accepts the stream but never releases what
                // it reads, so no WINDOW_UPDATE can legitimise the excess
                let h = RawFrame::new(HEADERS, F_END_HEADERS, sid, vec![0x83, 0x87, 0x01, 0x01, b'a', 0x04, 0x05, b'/', b'h', b'o', b'l', b'd']);
                let mut fs = vec![h];
                let mut left = e_iws as usize + 1;
                if left > 200_000 {
                    // windows this large would take too long; use the connection-window variant instead
                    push(plan, "data-beyond-conn-window", big_data_frames(finished_or(fresh, known), 70_000, e_mfs as usize), Expect::Unspecified("DATA beyond a window on a closed stream"));
                    return;
                }
                while left > 0 {
                    let l = left.min(e_mfs as usize).min(16_384);
                    fs.push(data(sid, &vec![0x55; l], false, None));
                    left -= l;
                }
                push(plan, "data-beyond-stream-window", fs, Expect::Stream(sid, "DATA exceeds the stream flow-control window"));
            } else {
                push(plan, "ping-bad-length", vec![RawFrame::new(PING, 0, 0, vec![0; 9])], Expect::Conn("PING length != 8"));
            }
        }
        26 => {
            if !e_client {
                // self-dependent PRIORITY on a live stream
                let sid = fresh;
                *next_id = fresh + 2;
                let h = RawFrame::new(HEADERS, F_END_HEADERS, sid, vec![0x83, 0x87, 0x84, 0x01, 0x01, b'a']);
                push(plan, "priority-self-dependency", vec![h, priority(sid, sid, false, 1)], Expect::Stream(sid, "stream depends on itself"));
            } else {
                push(plan, "priority-bad-length", vec![RawFrame::new(PRIORITY, 0, 1, vec![0; 4])], Expect::Unspecified("PRIORITY length != 5 (stream error FRAME_SIZE_ERROR)"));
            }
        }
        27 => {
            if !e_client {
                // DATA after END_STREAM (half-closed remote)
                let sid = fresh;
                *next_id = fresh + 2;
                let h = RawFrame::new(HEADERS, F_END_HEADERS | F_END_STREAM, sid, vec![0x82, 0x87, 0x84, 0x01, 0x01, b'a']);
                push(plan, "data-after-end-stream", vec![h, data(sid, b"late", false, None)], Expect::Stream(sid, "DATA on a half-closed (remote) stream"));
            } else {
                push(plan, "push-promise-bad", vec![RawFrame::new(PUSH_PROMISE, F_END_HEADERS, 0, vec![0, 0, 0, 2, 0x82])], Expect::Conn("PUSH_PROMISE on stream 0"));
            }
        }
        28 => {
            if !e_client {
                // second HEADERS without END_STREAM
                let sid = fresh;
                *next_id = fresh + 2;
                let h = RawFrame::new(HEADERS, F_END_HEADERS, sid, vec![0x83, 0x87, 0x84, 0x01, 0x01, b'a']);
                let h2 = RawFrame::new(HEADERS, F_END_HEADERS, sid, vec![0x00, 0x01, b'x', 0x01, b'y']);
                push(plan, "trailers-without-end-stream", vec![h, h2], Expect::Stream(sid, "second HEADERS without END_STREAM"));
            } else {
                push(plan, "settings-on-stream", vec![RawFrame::new(SETTINGS, 0, 1, vec![])], Expect::Conn("SETTINGS on a non-zero stream"));
            }
        }
        _ => {
            if !e_client {
                // padding that swallows the whole payload
                let sid = fresh;
                *next_id = fresh + 2;
                let h = RawFrame::new(HEADERS, F_END_HEADERS, sid, vec![0x83, 0x87, 0x84, 0x01, 0x01, b'a']);
                let bad = RawFrame::new(DATA, F_PADDED, sid, vec![5, 1, 2, 3]);
                push(plan, "padding-exceeds-payload", vec![h, bad], Expect::Conn("pad length >= payload length"));
            } else {
                push(plan, "client-received-push-promise-from-self-parity", vec![RawFrame::new(PUSH_PROMISE, F_END_HEADERS, 1, vec![0, 0, 0, 3, 0x82, 0x87, 0x84, 0x01, 0x01, b'a'])], Expect::Unspecified("PUSH_PROMISE with an odd promised id (needs an open parent)"));
            }
        }
    }
}

fn finished_or(fresh: u32, known: &[u32]) -> u32 {
    known.first().copied().unwrap_or(fresh)
}

fn big_data_frames(sid: u32, total: usize, mfs: usize) -> Vec<RawFrame> {
    let mut fs = vec![];
    let mut left = total;
    while left > 0 {
        let l = left.min(mfs).min(16_384);
        fs.push(data(sid, &vec![0x55; l], false, None));
        left -= l;
    }
    fs
}

// --------------------------------------------------------------------------------------
// malformed messages (RFC 9113 section 8)

/// The reference validity predicate for a request header list as received by a server.
pub fn valid_request(fields: &[(Vec<u8>, Vec<u8>)], connect_enabled: bool) -> Result<(), &'static str> {
    let mut seen_regular = false;
    let mut method: Option<&[u8]> = None;
    let mut scheme = false;
    let mut path: Option<&[u8]> = None;
    let mut authority = false;
    let mut protocol = false;
    for (n, v) in fields {
        if n.iter().any(|b| b.is_ascii_uppercase()) {
            return Err("uppercase field name");
        }
        if n.starts_with(b":") {
            if seen_regular {
                return Err("pseudo field after regular field");
            }
            match &n[..] {
                b":method" => {
                    if method.is_some() {
                        return Err("duplicate :method");
                    }
                    method = Some(v);
                }
                b":scheme" => {
                    if scheme {
                        return Err("duplicate :scheme");
                    }
                    scheme = true;
                }
                b":path" => {
                    if path.is_some() {
                        return Err("duplicate :path");
                    }
                    path = Some(v);
                }
                b":authority" => {
                    if authority {
                        return Err("duplicate :authority");
                    }
                    authority = true;
                }
                b":protocol" => {
                    if protocol {
                        return Err("duplicate :protocol");
                    }
                    protocol = true;
                }
                b":status" => return Err("response pseudo field in a request"),
                _ => return Err("unknown pseudo field"),
            }
        } else {
            seen_regular = true;
            match &n[..] {
                b"connection" | b"keep-alive" | b"proxy-connection" | b"transfer-encoding" | b"upgrade" => return Err("connection-specific field"),
                b"te" => {
                    if v != b"trailers" {
                        return Err("TE other than trailers");
                    }
                }
                _ => {}
            }
        }
    }
    let method = method.ok_or("missing :method")?;
    if method == b"CONNECT" && !protocol {
        if scheme || path.is_some() {
            return Err("CONNECT with :scheme or :path");
        }
        if !authority {
            return Err("CONNECT without :authority");
        }
        return Ok(());
    }
    if protocol && (!connect_enabled || method != b"CONNECT") {
        return Err(":protocol without extended CONNECT");
    }
    if !scheme {
        return Err("missing :scheme");
    }
    match path {
        None => return Err("missing :path"),
        Some(p) if p.is_empty() => return Err("empty :path"),
        _ => {}
    }
    Ok(())
}

pub fn valid_response(fields: &[(Vec<u8>, Vec<u8>)]) -> Result<(), &'static str> {
    let mut seen_regular = false;
    let mut status = false;
    for (n, v) in fields {
        if n.iter().any(|b| b.is_ascii_uppercase()) {
            return Err("uppercase field name");
        }
        if n.starts_with(b":") {
            if seen_regular {
                return Err("pseudo field after regular field");
            }
            if &n[..] == b":status" {
                if status {
                    return Err("duplicate :status");
                }
                status = true;
            } else if matches!(&n[..], b":method" | b":scheme" | b":path" | b":authority" | b":protocol") {
                return Err("request pseudo field in a response");
            } else {
                return Err("unknown pseudo field");
            }
        } else {
            seen_regular = true;
            match &n[..] {
                b"connection" | b"keep-alive" | b"proxy-connection" | b"transfer-encoding" | b"upgrade" => return Err("connection-specific field"),
                b"te" => {
                    if v != b"trailers" {
                        return Err("TE other than trailers");
                    }
                }
                _ => {}
            }
        }
    }
    if !status {
        return Err("missing :status");
    }
    Ok(())
}

pub fn valid_trailers(fields: &[(Vec<u8>, Vec<u8>)]) -> Result<(), &'static str> {
    for (n, _) in fields {
        if n.starts_with(b":") {
            return Err("pseudo field in trailers");
        }
        if n.iter().any(|b| b.is_ascii_uppercase()) {
            return Err("uppercase field name");
        }
        if matches!(&n[..], b"connection" | b"keep-alive" | b"proxy-connection" | b"transfer-encoding" | b"upgrade") {
            return Err("connection-specific field");
        }
    }
    Ok(())
}

fn raw_msg(t: &Tape, fields: Vec<(Vec<u8>, Vec<u8>)>) -> Msg {
    // literal-without-indexing everywhere, so that a rejected block cannot desynchronise
    // the two HPACK tables for the follow-up stream
    let n = fields.len();
    let approx: usize = fields.iter().map(|(a, b)| a.len() + b.len() + 2).sum();
    Msg {
        fields,
        choices: (0..n).map(|_| EncChoice { use_indexed: true, use_name_index: true, repr: Repr::LitNoIndex, huff_name: t.chance(Lane::Peer, 1, 3), huff_value: t.chance(Lane::Peer, 1, 3), nonminimal: 0 }).collect(),
        cuts: gen_cuts(t, approx),
        pad: None,
        prio: None,
        size_update: None,
        raw_block: None,
        tail: MsgTail::None,
    }
}

fn b(s: &str) -> Vec<u8> {
    s.as_bytes().to_vec()
}

fn gen_malformed_request(t: &Tape, plan: &mut T2Plan, next_id: &mut u32) {
    let sid = *next_id;
    *next_id += 2;
    let base = vec![(b(":method"), b("GET")), (b(":scheme"), b("https")), (b(":authority"), b("sim.test")), (b(":path"), b("/m"))];
    let mut fields = base.clone();
    let mut body: Option<BodySpec> = None;
    let mut eos = true;
    let mut label: String;
    let mut trailers_bad: Option<Vec<(Vec<u8>, Vec<u8>)>> = None;
    let c = t.draw(Lane::Peer, 22);
    match c {
        0 => {
            fields.push((b("Upper-Case"), b("x")));
            label = "uppercase-name".into();
        }
        1 => {
            let n = *t.pick(Lane::Peer, &["connection", "keep-alive", "proxy-connection", "transfer-encoding", "upgrade"]);
            fields.push((b(n), b("close")));
            // optionally hide it behind other fields so that a CONTINUATION split can land after it
            for _ in 0..t.draw(Lane::Peer, 4) {
                fields.push((b("x-filler"), crate::cfg::gen_value(t, 300)));
            }
            label = format!("connection-specific:{}", n);
        }
        2 => {
            fields.push((b("te"), b(*t.pick(Lane::Peer, &["gzip", "trailers, deflate", "chunked"]))));
            label = "te-not-trailers".into();
        }
        3 => {
            fields.push((b(":unknown"), b("1")));
            fields.rotate_right(1);
            label = "unknown-pseudo".into();
        }
        4 => {
            let which = t.draw(Lane::Peer, 4) as usize;
            let dup = base[which].clone();
            fields.insert(4, dup);
            label = format!("duplicate-pseudo:{}", String::from_utf8_lossy(&base[which].0));
        }
        5 => {
            fields.push((b("x-regular"), b("1")));
            fields.push((b(":path"), b("/late")));
            fields.remove(3);
            label = "pseudo-after-regular".into();
        }
        6 => {
            fields.insert(0, (b(":status"), b("200")));
            label = "status-in-request".into();
        }
        7 => {
            let which = *t.pick(Lane::Peer, &[0usize, 1, 3]);
            label = format!("missing-pseudo:{}", String::from_utf8_lossy(&base[which].0));
            fields.remove(which);
        }
        8 => {
            fields[3].1 = vec![];
            label = "empty-path".into();
        }
        9 => {
            // content-length larger than the body, END_STREAM on DATA
            fields[0].1 = b("POST");
            let (cl, frames, pad) = gen_cl_mismatch(t, false);
            fields.push((b("content-length"), cl.to_string().into_bytes()));
            eos = false;
            body = Some(BodySpec { frames, pad, end: PeerEnd::OnLastData, ignore_windows: false });
            label = "content-length-short-body".into();
        }
        10 => {
            fields[0].1 = b("POST");
            let (cl, frames, pad) = gen_cl_mismatch(t, true);
            fields.push((b("content-length"), cl.to_string().into_bytes()));
            eos = false;
            body = Some(BodySpec { frames, pad, end: PeerEnd::OnLastData, ignore_windows: false });
            label = "content-length-long-body".into();
        }
        11 => {
            fields[0].1 = b("POST");
            fields.push((b("content-length"), b("5")));
            label = "content-length-nonzero-with-end-stream-on-headers".into();
        }
        12 => {
            fields[0].1 = b("POST");
            fields.push((b("content-length"), b("7")));
            eos = false;
            body = Some(BodySpec { frames: vec![3], pad: vec![None], end: PeerEnd::Trailers(trailers_msg(t, &vec![("x-t".to_string(), b("1"))], false)), ignore_windows: false });
            label = "content-length-short-body-trailers".into();
        }
        13 => {
            fields[0].1 = b("POST");
            eos = false;
            let tr = vec![(b(":status"), b("200")), (b("x-t"), b("1"))];
            trailers_bad = Some(tr);
            label = "pseudo-in-trailers".into();
        }
        14 => {
            fields[0].1 = b("POST");
            eos = false;
            let tr = vec![(b("x-t"), b("1")), (b(":path"), b("/x"))];
            trailers_bad = Some(tr);
            label = "pseudo-in-trailers".into();
        }
        15 => {
            fields[0].1 = b("CONNECT");
            label = "connect-with-scheme-and-path".into();
        }
        16 => {
            fields.push((b(":protocol"), b("websocket")));
            fields.rotate_right(1);
            label = "protocol-without-extended-connect".into();
        }
        17 => {
            fields[0].1 = b("POST");
            fields.push((b("content-length"), b("abc")));
            eos = false;
            body = Some(BodySpec { frames: vec![3], pad: vec![None], end: PeerEnd::OnLastData, ignore_windows: false });
            label = "content-length-not-a-number".into();
        }
        _ => {
            // a VALID unusual request: must be delivered unmodified
            let k = t.draw(Lane::Peer, 4);
            match k {
                0 => {
                    fields.push((b("te"), b("trailers")));
                    label = "valid:te-trailers".into();
                }
                1 => {
                    fields = vec![(b(":method"), b("CONNECT")), (b(":authority"), b("sim.test:443"))];
                    eos = false;
                    body = Some(BodySpec { frames: vec![3], pad: vec![None], end: PeerEnd::OnLastData, ignore_windows: false });
                    label = "valid:connect".into();
                }
                2 => {
                    fields[0].1 = b("OPTIONS");
                    fields[3].1 = b("*");
                    label = "valid:options-star".into();
                }
                _ => {
                    fields[0].1 = b("POST");
                    fields.push((b("content-length"), b("6")));
                    eos = false;
                    body = Some(BodySpec { frames: vec![2, 4], pad: vec![Some(3), None], end: PeerEnd::OnLastData, ignore_windows: false });
                    label = "valid:content-length-matches".into();
                }
            }
        }
    }
    let verdict = valid_request(&fields, plan.ecfg.enable_connect_protocol);
    let cl_case = label.starts_with("content-length") || label == "pseudo-in-trailers";
    if let Some(tr) = trailers_bad {
        let m = raw_msg(t, tr);
        body = Some(BodySpec { frames: vec![2], pad: vec![None], end: PeerEnd::Trailers(m), ignore_windows: false });
    }
    if verdict.is_err() {
        label = format!("{} ({})", label, verdict.err().unwrap());
    }
    plan.label = format!("request:{}", label);
    plan.expect = if label.starts_with("valid:") {
        Expect::Legal
    } else if cl_case {
        Expect::Stream(sid, "body does not match content-length / malformed trailers: the stream must fail, never end cleanly")
    } else {
        Expect::NotDelivered(sid, "malformed request header section")
    };
    let head = raw_msg(t, fields);
    plan.script.push(PeerOp::Open { sid, head, eos, body });
}

fn gen_malformed_response(t: &Tape, plan: &mut T2Plan) {
    // E is the client: the first response is the malformed one
    let mut fields = vec![(b(":status"), b("200"))];
    let mut label: String;
    let mut body: Option<BodySpec> = None;
    let mut eos = true;
    let mut informational: Vec<Msg> = vec![];
    let c = t.draw(Lane::Peer, 14);
    match c {
        0 => {
            fields = vec![(b("x-a"), b("1"))];
            label = "missing-status".into();
        }
        1 => {
            fields.push((b(":path"), b("/x")));
            label = "request-pseudo-in-response".into();
        }
        2 => {
            fields.push((b(":status"), b("204")));
            label = "duplicate-status".into();
        }
        3 => {
            fields.push((b("Upper"), b("x")));
            label = "uppercase-name".into();
        }
        4 => {
            fields.push((b("connection"), b("close")));
            for _ in 0..t.draw(Lane::Peer, 4) {
                fields.push((b("x-filler"), crate::cfg::gen_value(t, 300)));
            }
            label = "connection-specific".into();
        }
        5 => {
            fields.push((b("x-a"), b("1")));
            fields.push((b(":status"), b("200")));
            fields.remove(0);
            label = "pseudo-after-regular".into();
        }
        6 => {
            let (cl, frames, pad) = gen_cl_mismatch(t, false);
            fields.push((b("content-length"), cl.to_string().into_bytes()));
            eos = false;
            body = Some(BodySpec { frames, pad, end: PeerEnd::OnLastData, ignore_windows: false });
            label = "content-length-short-body".into();
        }
        7 => {
            let (cl, frames, pad) = gen_cl_mismatch(t, true);
            fields.push((b("content-length"), cl.to_string().into_bytes()));
            eos = false;
            body = Some(BodySpec { frames, pad, end: PeerEnd::OnLastData, ignore_windows: false });
            label = "content-length-long-body".into();
        }
        8 => {
            eos = false;
            let tr = raw_msg(t, vec![(b(":status"), b("200")), (b("x-t"), b("1"))]);
            body = Some(BodySpec { frames: vec![2], pad: vec![None], end: PeerEnd::Trailers(tr), ignore_windows: false });
            label = "pseudo-in-trailers".into();
        }
        9 => {
            informational.push(raw_msg(t, vec![(b(":status"), b("103")), (b("connection"), b("close"))]));
            label = "informational-connection-specific".into();
        }
        10 => {
            fields.push((b(":unknown"), b("1")));
            fields.rotate_right(1);
            label = "unknown-pseudo".into();
        }
        _ => {
            let k = t.draw(Lane::Peer, 3);
            match k {
                0 => {
                    fields[0].1 = b("204");
                    label = "valid:204-no-body".into();
                }
                1 => {
                    fields[0].1 = b("304");
                    fields.push((b("content-length"), b("100")));
                    label = "valid:304-with-content-length".into();
                }
                _ => {
                    fields.push((b("content-length"), b("6")));
                    eos = false;
                    body = Some(BodySpec { frames: vec![2, 4], pad: vec![Some(3), None], end: PeerEnd::OnLastData, ignore_windows: false });
                    label = "valid:content-length-matches".into();
                }
            }
        }
    }
    let verdict = valid_response(&fields);
    if verdict.is_err() {
        label = format!("{} ({})", label, verdict.err().unwrap());
    }
    let cl_case = label.starts_with("content-length") || label.starts_with("pseudo-in-trailers");
    plan.label = format!("response:{}", label);
    // the malformed response answers E's first request, which is stream 1
    plan.expect = if label.starts_with("valid:") {
        Expect::Legal
    } else if cl_case {
        Expect::Stream(1, "body does not match content-length / malformed trailers")
    } else {
        Expect::NotDelivered(1, "malformed response header section")
    };
    let head = raw_msg(t, fields);
    let first = RespPlan { informational, head, eos, body, delay: 0, pushes: vec![] };
    plan.resp_plans.insert(0, first);
    // HEAD / 204 / 304 exemptions need the request to be known: keep requests simple
    for c in plan.cprogs.iter_mut() {
        c.method = "GET";
    }
}

// --------------------------------------------------------------------------------------
// invalid HPACK


/// A declared content-length and DATA frame sizes whose total differs from it.
fn gen_cl_mismatch(t: &Tape, long: bool) -> (u64, Vec<usize>, Vec<Option<u8>>) {
    let cl: u64 = if long { *t.pick(Lane::Peer, &[0u64, 0, 1, 3, 10, 1000]) } else { *t.pick(Lane::Peer, &[1u64, 2, 10, 1000, 70_000]) };
    let n = 1 + t.draw(Lane::Peer, 3) as usize;
    let mut frames: Vec<usize> = Vec::new();
    if long {
        // total = cl + extra, split over n frames (zero-length frames allowed)
        let extra = 1 + t.draw(Lane::Peer, 5) as u64;
        let mut left = cl + extra;
        for i in 0..n {
            let k = if i == n - 1 { left } else { t.draw(Lane::Peer, left as u32 + 1) as u64 };
            frames.push(k as usize);
            left -= k;
        }
    } else {
        let mut left = t.draw(Lane::Peer, cl.min(3000) as u32) as u64;
        for i in 0..n {
            let k = if i == n - 1 { left } else { t.draw(Lane::Peer, left as u32 + 1) as u64 };
            frames.push(k as usize);
            left -= k;
        }
    }
    let pad = frames.iter().map(|_| if t.chance(Lane::Peer, 1, 4) { Some(t.draw(Lane::Peer, 20) as u8) } else { None }).collect();
    (cl, frames, pad)
}

fn gen_hpack_invalid(t: &Tape, plan: &mut T2Plan, next_id: &mut u32) {
    let mut blk: Vec<u8> = vec![0x82, 0x87, 0x84, 0x01, 0x01, b'a'];
    let label;
    match t.draw(Lane::Peer, 9) {
        0 => {
            blk.push(0xff);
            blk.push(0x80 | 0x7f);
            blk.push(0x7f);
            label = "index-beyond-table";
        }
        1 => {
            blk.push(0x80);
            label = "index-zero";
        }
        2 => {
            // table size update after a field
            blk.push(0x20);
            label = "size-update-after-field";
        }
        3 => {
            // table size update above the settings limit, at the start
            let mut b2 = vec![];
            enc_int(&mut b2, 0x20, 5, 1 << 20, 0);
            b2.extend_from_slice(&blk);
            blk = b2;
            label = "size-update-above-limit";
        }
        4 => {
            // integer overflow in a string length
            blk.extend_from_slice(&[0x00, 0x7f, 0xff, 0xff, 0xff, 0xff, 0xff, 0xff, 0xff, 0xff, 0x7f]);
            label = "integer-overflow";
        }
        5 => {
            // Huffman string containing EOS (30 one-bits) : 4 bytes of 0xff
            blk.extend_from_slice(&[0x00, 0x01, b'n', 0x84, 0xff, 0xff, 0xff, 0xff]);
            label = "huffman-eos";
        }
        6 => {
            // Huffman padding longer than 7 bits: 'a' (5 bits 00011) + 11 ones -> 2 bytes
            blk.extend_from_slice(&[0x00, 0x01, b'n', 0x82, 0x1f, 0xff]);
            label = "huffman-padding-too-long";
        }
        7 => {
            // Huffman padding not all ones: 'a' 00011 followed by 000
            blk.extend_from_slice(&[0x00, 0x01, b'n', 0x81, 0x18]);
            label = "huffman-padding-not-ones";
        }
        _ => {
            // size update in the middle of the block, placed so that it can start a CONTINUATION
            blk = vec![0x82, 0x87, 0x84, 0x20, 0x01, 0x01, b'a'];
            label = "size-update-mid-block";
        }
    }
    let _ = (enc_str as fn(&mut Vec<u8>, &[u8], bool, usize), huff_encode as fn(&[u8]) -> Vec<u8>);
    if !plan.e_client && t.chance(Lane::Peer, 1, 3) {
        // State-dependent: the first index past the dynamic table as RFC 7541 defines it at
        // that moment, optionally right after an insertion that must have emptied the table.
        plan.label = "hpack-invalid:index-just-beyond-table".into();
        plan.expect = Expect::Conn("HPACK decoding error: index beyond the dynamic table");
        let pos = plan.script.iter().position(|o| matches!(o, PeerOp::Fin)).unwrap_or(plan.script.len());
        let mut ops = vec![];
        if t.chance(Lane::Peer, 2, 3) {
            // something small goes in first ...
            let sid = *next_id;
            *next_id += 2;
            let mut m = request_msg(t, "/hp/small", "GET", &vec![("x-s".to_string(), b"1".to_vec())], false);
            for c in m.choices.iter_mut() {
                c.repr = Repr::LitIncr;
            }
            ops.push(PeerOp::Open { sid, head: m, eos: true, body: None });
            // ... then an entry that does not fit
            let sid = *next_id;
            *next_id += 2;
            let mut m = request_msg(t, "/hp/oversize", "GET", &vec![], false);
            m.tail = MsgTail::OversizeInsert;
            ops.push(PeerOp::Open { sid, head: m, eos: true, body: None });
            ops.push(PeerOp::Barrier);
        }
        let sid = *next_id;
        *next_id += 2;
        let mut m = request_msg(t, "/hp/probe", "GET", &vec![], false);
        m.tail = MsgTail::IndexBeyondTable;
        m.cuts = vec![];
        ops.push(PeerOp::Mark("hpack"));
        ops.push(PeerOp::Open { sid, head: m, eos: true, body: None });
        ops.push(PeerOp::Barrier);
        for (i, o) in ops.into_iter().enumerate() {
            plan.script.insert(pos + i, o);
        }
        return;
    }
    plan.label = format!("hpack-invalid:{}", label);
    plan.expect = Expect::Conn("HPACK decoding error");
    let cuts = gen_cuts(t, blk.len());
    let cuts = if label == "size-update-mid-block" && t.chance(Lane::Peer, 3, 4) { vec![3] } else { cuts };
    let m = Msg { fields: vec![], choices: vec![], cuts, pad: None, prio: None, size_update: None, raw_block: Some(blk), tail: MsgTail::None };
    // insert before the final Fin / barrier sequence
    if plan.e_client {
        let rp = RespPlan { informational: vec![], head: m, eos: true, body: None, delay: 0, pushes: vec![] };
        let at = t.draw(Lane::Peer, plan.cprogs.len().max(1) as u32) as usize;
        plan.resp_plans.insert(at.min(plan.resp_plans.len()), rp);
    } else {
        let sid = *next_id;
        *next_id += 2;
        // place it after the legal prefix, before Fin
        let pos = plan.script.iter().position(|o| matches!(o, PeerOp::Fin)).unwrap_or(plan.script.len());
        plan.script.insert(pos, PeerOp::Barrier);
        plan.script.insert(pos, PeerOp::Open { sid, head: m, eos: true, body: None });
        plan.script.insert(pos, PeerOp::Mark("hpack"));
    }
}

fn in_dir_of(e_client: bool) -> usize {
    // direction E receives on: responses (1) for a client, requests (0) for a server
    if e_client {
        1
    } else {
        0
    }
}

// --------------------------------------------------------------------------------------
// the run

pub fn run_t2(profile: &T2Profile, tape: Tape, want_sample: bool) -> RunOut {
    h2::verif::reset_thread_state();
    h2::verif::enable_events(true);
    let plan = draw_t2(&tape, profile);
    let net = Net::new((plan.caps[0].0.max(256), plan.caps[0].1.max(256)), (plan.caps[1].0.max(256), plan.caps[1].1.max(256)));
    let mut exec = Exec::new(tape.clone(), Some(net.clone()), plan.exec.clone());
    let hist = Hist::new(true);
    let ctx = Ctx { hist: hist.clone(), spawner: exec.spawner.clone(), status: exec.status.clone(), progress: exec.api_progress.clone(), coop: false };
    let shared: SharedRef = Arc::new(Mutex::new(Shared::default()));
    // a client under test keeps one request handle until the scripted peer is done
    let idle_gate = crate::exec::Gate::new();
    shared.lock().unwrap().idle_gate = Some(idle_gate.clone());
    let probe_gate = crate::exec::Gate::new();
    shared.lock().unwrap().probe_gate = Some(probe_gate.clone());
    let e_side = if plan.e_client { 0 } else { 1 };
    let p_side = 1 - e_side;
    // E
    let t1plan = Arc::new(T1Plan {
        ccfg: plan.ecfg.clone(),
        scfg: plan.ecfg.clone(),
        net_caps: plan.caps,
        io: [plan.io.clone(), plan.io.clone()],
        exec: plan.exec.clone(),
        cprogs: plan.cprogs.clone(),
        sprogs: plan.sprogs.clone(),
        fatal: FatalFault::None,
        actions: plan.e_actions.clone(),
        pings: [0, plan.e_pings.map(|p| p.0).unwrap_or(0)],
        ping_gap: plan.e_pings.map(|p| p.1),
        hold_main_sr: 0,
        accept_delay: plan.accept_delay,
    });
    let eio = net.io(e_side, plan.io.clone(), tape.clone());
    let ctl = CtlQ::default();
    let e_task = if plan.e_client {
        exec.spawn("c:conn", client_main(ctx.clone(), eio, t1plan.clone(), ctl.clone(), shared.clone()))
    } else {
        exec.spawn("s:conn", server_main(ctx.clone(), eio, t1plan.clone(), ctl.clone(), shared.clone()))
    };
    let _ = e_task;
    if !plan.e_actions.is_empty() {
        let acts = plan.e_actions.clone();
        let q = ctl.clone();
        exec.spawn("s:ctl", async move {
            for a in acts {
                for _ in 0..a.after_yields {
                    crate::exec::yield_now().await;
                }
                q.send(a.ctl.clone());
            }
        });
    }
    // the peer
    let pio = net.io(p_side, IoCfg::benign(), tape.clone());
    let mut peer = Peer::new(plan.e_client, pio, hist.clone(), tape.clone(), plan.peer_settings.clone(), plan.grant);
    peer.script = plan.script.iter().cloned().collect();
    peer.resp_plans = plan.resp_plans.clone();
    peer.snapshot_streams = profile.kind == T2Kind::Graceful;
    if plan.peer_withholds_settings_ack {
        peer.auto_ack_settings = false;
    }
    let obs = peer.obs.clone();
    let barriers = peer.barriers.clone();
    exec.spawn("p:peer", PeerFuture(peer));
    if plan.stall_e_writes {
        net.set_stalled(e_side, true);
    }
    for (at, x) in &plan.corrupt {
        net.lock().dirs[p_side].corrupt.push((*at, *x));
    }
    let mut mon = Monitor::new([plan.e_client, !plan.e_client]);
    mon.ep[e_side].max_conn_target = plan.ecfg.conn_target().max(65_535) as i64;
    if plan.flood.is_some() {
        // h2 allows max(5, 1.25 x max_header_list_size / max_frame_size) non-final frames;
        // the assertion leaves twice that plus slack
        let mhls = plan.ecfg.max_header_list_size.unwrap_or(16 << 20) as usize;
        let mfs = plan.ecfg.mfs() as usize;
        mon.ep[e_side].max_continuations_allowed = Some(2 * (mhls / mfs.max(1)) + 16);
    }
    let mut evbuf: Vec<h2::verif::Ev> = Vec::new();
    let mut problems: Vec<String> = Vec::new();
    let mut resets_seen = 0usize;
    let mut states: std::collections::BTreeSet<u64> = Default::default();
    let mut bound_violations: Vec<Violation> = Vec::new();
    let mut max_seen = crate::t2x::Maxima::default();
    let mut heal_pending = plan.stall_e_writes;

    let budget_mark_step = exec.cfg.max_steps / 4 * 3;
    let mut budget_mark_bytes = 0u64;
    let outcome = loop {
        if exec.step == budget_mark_step {
            budget_mark_bytes = hist.app_bytes();
        }
        if exec.step % 256 == 0 {
            // runaway output (decided by the C08 oracle below): no need to watch it for the
            // whole step budget
            let n = net.lock();
            if n.dirs[e_side].written > 4 * n.dirs[p_side].written + (2 << 20) {
                break StepOutcome::Quiescent;
            }
        }
        let o = exec.step_once();
        let ent = match o {
            StepOutcome::Ran(e) => e,
            StepOutcome::Quiescent => {
                // release a peer barrier, or heal a stall, or finish
                let g = barriers.lock().unwrap().take();
                if let Some(g) = g {
                    // the quiescence after the probe was sent: everything is buffered at the
                    // applications, which now release it all at once
                    if !probe_gate.is_open() && !obs.lock().unwrap().probe_streams.is_empty() {
                        probe_gate.open();
                    }
                    g.open();
                    continue;
                }
                if heal_pending {
                    heal_pending = false;
                    net.set_stalled(e_side, false);
                    continue;
                }
                if !idle_gate.is_open() {
                    idle_gate.open();
                    continue;
                }
                break StepOutcome::Quiescent;
            }
            other => break other,
        };
        hist.with(|h| h.step = exec.step);
        mon.step = exec.step;
        mon.now_ns = exec.now_ns;
        if let Entity::Task(id) = ent {
            evbuf.clear();
            h2::verif::take_events(&mut evbuf);
            if !evbuf.is_empty() && exec.tasks[id].name.as_bytes()[0] != b'p' {
                mon.push_events(e_side, &evbuf, exec.step);
            }
            let pr = h2::verif::take_problems();
            if !pr.is_empty() {
                problems.extend(pr);
            }
        }
        hist.with(|h| {
            while resets_seen < h.resets.len() {
                let r = &h.resets[resets_seen];
                mon.note_app_reset(r.side as usize, r.sid, r.step);
                resets_seen += 1;
            }
        });
        {
            let n = net.lock();
            mon.feed_taps(&n.dirs[0].tap, &n.dirs[1].tap);
        }
        mon.advance();
        if plan.flood.is_some() || exec.step % 8 == 0 {
            let sh = shared.lock().unwrap();
            if let Some(st) = &sh.stats[e_side] {
                let s = st.snapshot();
                crate::t2x::check_bounds(&plan, &s, &sh.codec[e_side], &mut max_seen, &mut bound_violations, exec.step);
                let mut h: u64 = 0xcbf29ce484222325;
                fnv(&mut h, &[s.num_send_streams as u8, s.num_recv_streams as u8, (s.conn_send_window > 0) as u8, s.has_conn_error as u8, (s.streams.len().min(20)) as u8]);
                for st in s.streams.iter().take(8) {
                    fnv(&mut h, &[st.state, st.is_pending_send as u8, st.is_pending_accept as u8, (st.ref_count.min(3)) as u8]);
                }
                states.insert(h);
            }
        }
    };

    // ---------------- oracles
    let mut violations: Vec<Violation> = Vec::new();
    let step = exec.step;
    let who = if plan.e_client { "client" } else { "server" };
    for p in &exec.panics {
        violations.push(Violation::new("C08", "panic", p.msg.split(" at ").last().unwrap_or("").to_string(), format!("[{}] task {} panicked: {}", plan.label, p.task, p.msg), p.step));
    }
    for p in &problems {
        violations.push(Violation::new("C20", "lock-discipline", p.split(':').next().unwrap_or("").to_string(), p.clone(), step));
    }
    match &outcome {
        StepOutcome::Livelock(t) => violations.push(Violation::new("C08", "busy-loop", t.split(':').next().unwrap_or("").to_string(), format!("[{}] no transport or API progress for {} steps; last task {}", plan.label, exec.cfg.livelock_limit, t), step)),
        StepOutcome::StepBudget => {
            if hist.app_bytes() > budget_mark_bytes {
                hist.probe("step_budget_exhausted_while_delivering");
            } else {
                violations.push(Violation::new("C08", "step-budget", "", format!("[{}] run did not finish within {} steps and delivered no body byte during the last quarter of them", plan.label, exec.cfg.max_steps), step));
            }
        }
        _ => {}
    }
    let o = obs.lock().unwrap().clone();
    let quiescent = matches!(outcome, StepOutcome::Quiescent);
    let unfinished: Vec<(String, String)> = exec.unfinished().into_iter().filter(|(n, _)| n != "p:peer").collect();
    let conn_done = shared.lock().unwrap().conn_done[e_side];
    let conn_res = hist.with(|h| h.conn_results[e_side].clone());
    let err_goaway: Option<(u32, u32, Vec<u8>)> = o.goaway_from_e.iter().find(|g| g.1 != 0).cloned();
    // C08 / C07: after whatever the peer did, either the connection is still in service or it
    // ended and every handle resolved
    if quiescent && !unfinished.is_empty() && profile.kind != T2Kind::Exhaust {
        let only_conn = unfinished.iter().all(|(n, _)| n.ends_with(":conn") || n == "c:main-handle");
        let peer_left_open = !o.finished_script || !o.eof_from_e;
        if conn_done || !(only_conn && peer_left_open) {
            // E's connection ended but handles hang; or E is alive, the peer has nothing
            // more to say, and application operations are parked
            let kinds: std::collections::BTreeSet<String> = unfinished.iter().map(|(_, s)| s.clone()).collect();
            let blocked_on_peer = o.window_blocked;
            let prop = if conn_done { "C07" } else if matches!(plan.expect, Expect::Legal) { "C06" } else { "C08" };
            if conn_done || (!blocked_on_peer && matches!(plan.expect, Expect::Legal)) || matches!(plan.expect, Expect::Conn(_)) {
                violations.push(Violation::new(
                    prop,
                    "parked-at-quiescence",
                    kinds.into_iter().collect::<Vec<_>>().join("+"),
                    format!("[{}] {} quiescent (connection ended: {}) with unfinished tasks {:?} {}", plan.label, who, conn_done, unfinished, {
                        let n = net.lock();
                        format!(
                            "[net c>s inflight={}/{} rbuf={}/{} wblocked={} rwait={}; s>c inflight={}/{} rbuf={}/{} wblocked={} rwait={}] [peer {:?}]",
                            n.dirs[0].inflight.len(), n.dirs[0].inflight_cap, n.dirs[0].rbuf.len(), n.dirs[0].rbuf_cap, n.dirs[0].writer_waker.is_some(), n.dirs[0].reader_waker.is_some(),
                            n.dirs[1].inflight.len(), n.dirs[1].inflight_cap, n.dirs[1].rbuf.len(), n.dirs[1].rbuf_cap, n.dirs[1].writer_waker.is_some(), n.dirs[1].reader_waker.is_some(), o
                        )
                    }),
                    step,
                ));
            }
        }
    }
    // C15 (Graceful kind): the two-step shutdown completes although keep-alive pings are in
    // flight, the final last-stream-id covers exactly what the application got, later
    // streams are not processed, and E closes the connection once it has drained
    if profile.kind == T2Kind::Graceful && quiescent {
        let (accepts, graceful) = hist.with(|h| (h.accept_step.clone(), h.graceful.clone()));
        let e_tasks_left: Vec<&(String, String)> = unfinished.iter().filter(|(n, _)| n != "s:conn").collect();
        let clean = err_goaway.is_none() && !o.read_err && !matches!(conn_res, Some(Err(_)));
        if !graceful.is_empty() && clean && !o.window_blocked {
            hist.probe("t2_graceful_checked");
            let finals: Vec<&(u32, u32, Vec<u8>)> = o.goaway_from_e.iter().filter(|g| g.0 != 0x7fff_ffff).collect();
            if e_tasks_left.is_empty() {
                if finals.is_empty() {
                    violations.push(Violation::new("C15", "graceful-shutdown-final-goaway-missing", "", format!("[{}] server called graceful_shutdown at step {}; quiescent with every stream finished, GOAWAYs seen by the peer: {:?}", plan.label, graceful[0].1, o.goaway_from_e), step));
                }
                if !conn_done || !o.eof_from_e {
                    violations.push(Violation::new("C15", "graceful-shutdown-not-closed-when-drained", "t2", format!("[{}] server called graceful_shutdown at step {}; quiescent with every stream finished but the connection is still open (future finished: {}, EOF seen by the peer: {}, GOAWAYs {:?})", plan.label, graceful[0].1, conn_done, o.eof_from_e, o.goaway_from_e), step));
                }
            }
            if let Some(last) = finals.last().map(|g| g.0) {
                for (sid, _) in &accepts {
                    if *sid > last {
                        violations.push(Violation::new("C15", "goaway-last-id-below-accepted-stream", "t2", format!("[{}] final GOAWAY last-stream-id {} but stream {} was handed to the application", plan.label, last, sid), step));
                    }
                }
                for sid in &plan.late_streams {
                    let e_sent = o.streams.get(sid).map(|s| s.e_hdr || s.e_end).unwrap_or(false);
                    if *sid > last && (accepts.contains_key(sid) || e_sent) {
                        violations.push(Violation::new("C15", "stream-above-goaway-processed", "t2", format!("[{}] stream {} was opened after the final GOAWAY(last={}) had been sent and was processed (accepted: {}, answered: {})", plan.label, sid, last, accepts.contains_key(sid), e_sent), step));
                    }
                }
                // every stream at or below the cut-off was handed over and ended by E
                if conn_done {
                    for (sid, ps) in &o.streams {
                        if ps.opened_by_peer && *sid <= last && !plan.late_streams.contains(sid) && !(ps.e_end || ps.e_rst.is_some()) && !ps.p_rst {
                            violations.push(Violation::new("C15", "stream-below-goaway-not-completed", "t2", format!("[{}] stream {} <= last-stream-id {} was neither completed nor reset by E before it closed (accepted: {})", plan.label, sid, last, accepts.contains_key(sid)), step));
                        }
                    }
                }
            }
        }
    }
    // C08: bounded work per input byte, seen from outside: what E wrote is covered by what its
    // application submitted and what the peer sent
    {
        let n = net.lock();
        let e_wrote = n.dirs[e_side].written;
        let p_wrote = n.dirs[p_side].written;
        let submitted: u64 = hist.with(|h| h.streams.values().map(|s| s.dirs[1 - in_dir_of(plan.e_client)].s_body + 4096).sum());
        let allowed = 4 * (p_wrote + submitted) + 262_144;
        if e_wrote > allowed {
            violations.push(Violation::new("C08", "unbounded-output", plan.label.clone(), format!("[{}] {} wrote {} bytes although its application submitted about {} and the peer sent {}", plan.label, who, e_wrote, submitted, p_wrote), step));
        }
    }
    // C09 / C13 / C11 expectations
    let delivered_head = |sid: u32, dir: usize| hist.with(|h| h.streams.get(&sid).map(|s| s.dirs[dir].r_head.is_some()).unwrap_or(false));
    let in_dir = if plan.e_client { 1 } else { 0 };
    match &plan.expect {
        Expect::Legal => {
            if let Some(g) = &err_goaway {
                violations.push(Violation::new("C09", "goaway-on-legal-traffic", format!("{}:{}:{}", who, plan.label, g.1), format!("[{}] {} sent GOAWAY(code {}) although the peer sent only legal traffic", plan.label, who, g.1), step));
                // C12: the frame E had just taken from the wire was well-formed (the scripted
                // peer's serialiser and the reference parser agree on it); answering it with a
                // framing-level connection error means E did not parse it to the same value
                if matches!(profile.kind, T2Kind::Legal | T2Kind::Hpack) && (g.1 == 1 || g.1 == 6) {
                    let k = mon.ep[e_side].goaway_out.iter().find(|x| x.1 == g.1).map(|x| x.2).unwrap_or(0);
                    if k > 0 {
                        if let Some(f) = mon.frames[p_side].get(k - 1) {
                            let unusual = f.flags & (F_PADDED | F_PRIORITY) != 0 || f.payload.is_empty() || f.ty == CONTINUATION || f.ty > 9;
                            if unusual {
                                violations.push(Violation::new("C12", "well-formed-frame-rejected", format!("{}:{}", type_name(f.ty), if f.flags & F_PADDED != 0 { "padded" } else if f.flags & F_PRIORITY != 0 { "priority" } else if f.payload.is_empty() { "empty" } else { "other" }), format!("[{}] {} answered the well-formed frame {} with GOAWAY(code {})", plan.label, who, f.describe(), g.1), step));
                            }
                        }
                    }
                }
            }
            if let Some(Err(e)) = &conn_res {
                if e.is_library {
                    violations.push(Violation::new("C09", "connection-error-on-legal-traffic", format!("{}:{}:{:?}", who, plan.label, e.reason), format!("[{}] {} failed the connection: {}", plan.label, who, e.display), step));
                }
            }
            let app: Vec<(u32, u32)> = hist.with(|h| h.resets.iter().map(|r| (r.sid, r.code)).collect());
            for (sid, code) in &o.rst_from_e {
                let by_app = app.iter().any(|(s, c)| s == sid && c == code);
                let ok = by_app || *code == CANCEL || *code == NO_ERROR || *code == STREAM_CLOSED || (*code == REFUSED_STREAM && plan.ecfg.max_concurrent_streams.is_some());
                if !ok {
                    violations.push(Violation::new("C09", "stream-reset-on-legal-traffic", format!("{}:{}:{}", who, plan.label, code), format!("[{}] {} reset stream {} with code {} although the peer sent only legal traffic", plan.label, who, sid, code), step));
                }
            }
        }
        Expect::Conn(why) => {
            if err_goaway.is_none() {
                violations.push(Violation::new(
                    if plan.label.starts_with("hpack") { "C11" } else if plan.label == "settings-ack-unsolicited" { "C14" } else if plan.label.starts_with("oversize") { "C12" } else { "C09" },
                    "connection-violation-not-detected",
                    plan.label.clone(),
                    format!("[{}] {}: {} — expected GOAWAY with an error code, saw GOAWAYs {:?}, RSTs {:?}, connection result {:?}", plan.label, who, why, o.goaway_from_e, o.rst_from_e, conn_res.as_ref().map(|r| r.as_ref().map_err(|e| e.display.clone()))),
                    step,
                ));
            }
        }
        Expect::Stream(sid, why) => {
            let rst = o.rst_from_e.iter().any(|(s, _)| s == sid);
            // once both halves are closed a RST_STREAM is pointless; the error surfaced to the
            // application is then the stream's failure
            let app_err = hist.with(|h| h.streams.get(sid).map(|s| s.dirs[in_dir].r_err.is_some() && !s.dirs[in_dir].r_end).unwrap_or(false));
            if !rst && err_goaway.is_none() && !app_err {
                let ended_clean = hist.with(|h| h.streams.get(sid).map(|s| s.dirs[in_dir].r_end).unwrap_or(false));
                violations.push(Violation::new(
                    if plan.label.contains("content-length") || plan.label.contains("trailers") && profile.kind == T2Kind::Malformed { "C13" } else { "C09" },
                    "stream-violation-not-detected",
                    plan.label.clone(),
                    format!("[{}] {}: {} on stream {} — expected RST_STREAM or GOAWAY; saw neither (clean end reported to the application: {})", plan.label, who, why, sid, ended_clean),
                    step,
                ));
            }
            let ended_clean = hist.with(|h| h.streams.get(sid).map(|s| s.dirs[in_dir].r_end).unwrap_or(false));
            if ended_clean && profile.kind == T2Kind::Malformed {
                violations.push(Violation::new("C13", "malformed-body-ended-cleanly", plan.label.clone(), format!("[{}] {}: stream {} reported a clean end to the application", plan.label, who, sid), step));
            }
        }
        Expect::NotDelivered(sid, why) => {
            if delivered_head(*sid, in_dir) {
                let f = hist.with(|h| h.streams.get(sid).and_then(|s| s.dirs[in_dir].r_head.clone()).unwrap_or_default());
                violations.push(Violation::new("C13", "malformed-message-delivered", plan.label.clone(), format!("[{}] {}: {} on stream {} was handed to the application: {}", plan.label, who, why, sid, show_fields(&f)), step));
            }
            let rst = o.rst_from_e.iter().any(|(s, _)| s == sid);
            let app_err = hist.with(|h| h.streams.get(sid).map(|s| s.dirs[in_dir].r_err.is_some() && !s.dirs[in_dir].r_end).unwrap_or(false));
            if !rst && err_goaway.is_none() && !app_err {
                violations.push(Violation::new("C13", "malformed-message-not-rejected", plan.label.clone(), format!("[{}] {}: {} on stream {}: no RST_STREAM and no GOAWAY", plan.label, who, why, sid), step));
            }
        }
        Expect::Unspecified(_) => {}
    }
    // containment: after a stream-level error the follow-up stream must complete
    if let (Some(fu), true) = (plan.followup, matches!(plan.expect, Expect::Stream(..) | Expect::NotDelivered(..) | Expect::Legal)) {
        if err_goaway.is_none() && o.barriers_passed >= 2 && quiescent {
            let ok = hist.with(|h| h.streams.get(&fu).map(|s| s.dirs[0].r_head.is_some()).unwrap_or(false));
            let answered = {
                // the peer saw response HEADERS on the follow-up stream
                mon.ep[e_side].streams.get(&fu).map(|s| s.hdr_out).unwrap_or(false)
            };
            if !(ok && answered) {
                violations.push(Violation::new("C09", "other-streams-broken-after-stream-error", plan.label.clone(), format!("[{}] {}: follow-up stream {} delivered={} answered={}", plan.label, who, fu, ok, answered), step));
            }
        }
    }
    // C03 (ii): window exhaustion probe. The peer has used up its whole view of the connection
    // window and the application has released everything it was handed.
    if profile.kind == T2Kind::Exhaust && quiescent && err_goaway.is_none() && o.barriers_passed >= 3 && !o.probe_streams.is_empty() {
        let e = &mon.ep[e_side];
        let st = shared.lock().unwrap().stats[e_side].as_ref().map(|s| s.snapshot());
        if let (true, Some(st)) = (e.events.is_empty(), st) {
            let target = plan.ecfg.conn_target() as i64;
            let adv = 65_535 + e.conn_wu_out - e.conn_data_in;
            // (1) the wire and the endpoint's own books agree
            if st.conn_recv_window as i64 != adv {
                violations.push(Violation::new("C03", "connection-window-books-disagree-with-wire", "", format!("[{}] {} believes it has advertised {} but the wire says 65535 + WINDOW_UPDATE {} - DATA {} = {}", plan.label, who, st.conn_recv_window, e.conn_wu_out, e.conn_data_in, adv), step));
            }
            // (2) nothing leaked: everything is available for advertising again
            if st.conn_recv_available as i64 != target {
                violations.push(Violation::new(
                    "C03",
                    "connection-window-not-restored-after-exhaustion",
                    if (st.conn_recv_available as i64) < target { "short" } else { "excess" },
                    format!("[{}] after the peer exhausted the connection window ({} probe bytes) and the application released everything, {} has {} bytes of connection window to give but the configured target is {} (advertised {}, WINDOW_UPDATE total {}, DATA processed {})", plan.label, o.probe_total, who, st.conn_recv_available, target, adv, e.conn_wu_out, e.conn_data_in),
                    step,
                ));
            }
            // (3) never permanently short: what is still unadvertised is below the update threshold
            let unadvertised = target - adv;
            if adv >= 0 && unadvertised > 0 && unadvertised >= (adv / 2).max(1) {
                violations.push(Violation::new("C03", "window-update-withheld", "conn", format!("[{}] {} advertises {} of {} and sends no WINDOW_UPDATE although {} bytes are released (threshold {})", plan.label, who, adv, target, unadvertised, adv / 2), step));
            }
            let iws = plan.ecfg.iws() as i64;
            for (sid, full) in &o.probe_streams {
                if !*full {
                    continue;
                }
                let wire = e.streams.get(sid);
                let own = st.streams.iter().find(|x| x.id == *sid);
                if let (Some(w), Some(x)) = (wire, own) {
                    if w.rst_out > 0 || x.state == 6 {
                        continue;
                    }
                    let adv_s = iws + w.wu_out - w.data_in;
                    if x.recv_window as i64 != adv_s {
                        violations.push(Violation::new("C03", "stream-window-books-disagree-with-wire", "", format!("[{}] probe stream {}: {} believes {} but the wire says {}", plan.label, sid, who, x.recv_window, adv_s), step));
                    }
                    if x.recv_available as i64 != iws {
                        violations.push(Violation::new("C03", "stream-window-not-restored-after-exhaustion", if (x.recv_available as i64) < iws { "short" } else { "excess" }, format!("[{}] probe stream {}: {} bytes received and released, stream window to give {} of {}", plan.label, sid, w.data_in, x.recv_available, iws), step));
                    }
                    let un = iws - adv_s;
                    if adv_s >= 0 && un > 0 && un >= (adv_s / 2).max(1) {
                        violations.push(Violation::new("C03", "window-update-withheld", "stream", format!("[{}] probe stream {}: advertises {} of {} with {} released bytes unadvertised", plan.label, sid, adv_s, iws, un), step));
                    }
                }
            }
            hist.probe("exhaustion_probe_checked");
        }
    }
    // a connection that E failed must also fail its future
    if err_goaway.is_some() {
        if let Some(Ok(())) = &conn_res {
            violations.push(Violation::new("C15", "connection-result-hides-own-error", format!("{}:{}", who, plan.label), format!("[{}] {} sent GOAWAY{:?} but its connection future returned Ok", plan.label, who, err_goaway), step));
        }
    }
    mon.finish([false, false]);
    violations.extend(mon.violations.drain(..));
    violations.extend(hist.with(|h| std::mem::take(&mut h.violations)));
    violations.extend(bound_violations);
    let clean_legal = matches!(plan.expect, Expect::Legal) && err_goaway.is_none() && quiescent && profile.kind != T2Kind::Corrupt && o.rst_from_e.is_empty();
    let mut fid: Vec<Violation> = Vec::new();
    let streams_done = check_fidelity(&hist, &mon, false, &mut fid, step);
    if profile.kind != T2Kind::Corrupt && profile.kind != T2Kind::Flood {
        // what E delivered must be what the peer sent (never the illegal content)
        for mut v in fid {
            // streams the violation catalogue opened with hand-made frames have no recorded
            // submission to compare with
            if v.oracle == "head-without-submission" {
                continue;
            }
            if profile.kind == T2Kind::Hpack && v.prop == "C01" && v.oracle.starts_with("head") {
                v.prop = "C11";
            }
            v.msg = format!("[{}] {}", plan.label, v.msg);
            violations.push(v);
        }
    }
    // valid messages must be delivered (legal traffic not penalised)
    if clean_legal && !plan.e_client {
        hist.with(|h| {
            for (sid, s) in &h.streams {
                let d = &s.dirs[0];
                // streams above the last-stream-id of a GOAWAY that E sent are not processed
                let cutoff = o.goaway_from_e.iter().map(|g| g.0).min().unwrap_or(u32::MAX);
                if d.s_head.is_some() && d.r_head.is_none() && sid % 2 == 1 && d.s_abort.is_none() && *sid <= cutoff {
                    violations.push(Violation::new(
                        if profile.kind == T2Kind::Hpack { "C11" } else if profile.kind == T2Kind::Malformed { "C13" } else { "C09" },
                        "valid-message-not-delivered",
                        plan.label.clone(),
                        format!("[{}] server never delivered the valid request on stream {}: {}", plan.label, sid, show_fields(d.s_head.as_ref().unwrap())),
                        step,
                    ));
                }
            }
        });
    }
    let _ = canon as fn(&Fields) -> BTreeMap<String, Vec<Vec<u8>>>;

    // ---------------- outputs
    let (bytes, mut faults, lock_calls) = {
        let n = net.lock();
        ([n.dirs[0].written, n.dirs[1].written], n.faults.clone(), n.calls_with_lock_held)
    };
    faults.merge(&exec.faults);
    match profile.kind {
        T2Kind::Legal => faults.add("peer_unusual", 1),
        T2Kind::Corrupt => faults.add("peer_corrupt", plan.corrupt.len() as u64),
        T2Kind::Exhaust => faults.add("peer_unusual", 1),
        _ => faults.add("peer_violation", 1),
    }
    let mut probes = hist.with(|h| h.probes.clone());
    for (k, v) in &mon.probes {
        *probes.entry(k).or_insert(0) += v;
    }
    if lock_calls > 0 {
        probes.insert("transport_called_with_lock_held", lock_calls);
    }
    if err_goaway.is_some() {
        probes.insert("e_sent_error_goaway", 1);
    }
    if !o.rst_from_e.is_empty() {
        probes.insert("e_sent_rst_stream", 1);
    }
    max_seen.export(&mut probes);
    let mut log_hash: u64 = 0xcbf29ce484222325;
    {
        let n = net.lock();
        fnv(&mut log_hash, &n.dirs[0].tap);
        fnv(&mut log_hash, &n.dirs[1].tap);
    }
    fnv(&mut log_hash, &exec.step.to_le_bytes());
    fnv(&mut log_hash, &exec.sched_hash.to_le_bytes());
    for v in &violations {
        fnv(&mut log_hash, v.signature().as_bytes());
    }
    let mut work_hash: u64 = 0xcbf29ce484222325;
    fnv(&mut work_hash, plan.label.as_bytes());
    fnv(&mut work_hash, format!("{:?}{:?}", plan.script.len(), plan.expect).as_bytes());
    fnv(&mut work_hash, &bytes[p_side].to_le_bytes());
    let trace_tail = hist.with(|h| h.log.iter().rev().take(40).rev().map(|e| format!("step {} {} s{}: {}", e.step, if e.side == 0 { "client" } else { "server" }, e.sid, e.what)).collect::<Vec<_>>());
    let sample = if want_sample {
        let wire: Vec<String> = (0..2).flat_map(|d| mon.frames[d].iter().take(30).map(move |f| format!("{} {}", if d == 0 { "C>" } else { "S>" }, f.describe()))).collect();
        Some(serde_json::json!({
            "endpoint_under_test": who,
            "scenario": plan.label,
            "expectation": format!("{:?}", plan.expect),
            "e_cfg": plan.ecfg.to_json(),
            "peer_settings": format!("{:?}", plan.peer_settings),
            "peer_script": plan.script.iter().take(30).map(|o| match o { PeerOp::Open{sid, eos, body, head} => format!("Open(sid={}, fields={}, cuts={:?}, eos={}, body={:?})", sid, head.fields.len(), head.cuts, eos, body.as_ref().map(|b| b.frames.clone())), PeerOp::Frames(fs) => format!("Frames({})", fs.iter().map(|f| f.describe()).collect::<Vec<_>>().join(",")), PeerOp::Raw(b) => format!("Raw({} bytes)", b.len()), other => format!("{:?}", other) }).collect::<Vec<_>>(),
            "observed_from_e": {"goaway": format!("{:?}", o.goaway_from_e), "rst": format!("{:?}", o.rst_from_e), "connection_result": format!("{:?}", conn_res.as_ref().map(|r| r.as_ref().map_err(|e| e.display.clone())))},
            "outcome": format!("{:?}", outcome),
            "peer_obs": format!("{:?}", o),
            "first_wire_frames": wire,
            "api_events": trace_tail,
        }))
    } else {
        None
    };
    h2::verif::enable_events(false);
    RunOut {
        violations,
        steps: exec.step,
        sim_ns: exec.now_ns,
        bytes,
        faults,
        probes,
        sched_hash: exec.sched_hash,
        work_hash,
        log_hash,
        states: states.into_iter().collect(),
        outcome: format!("{:?}", outcome),
        streams_done,
        sample,
        tape: tape.recorded(),
        trace_tail,
        recheck_tape: None,
    }
}
