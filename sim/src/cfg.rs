//! Endpoint configuration drawn from the tape, and header-list generators.

use crate::hist::Fields;
use crate::tape::{Lane, Tape};
use std::time::Duration;

#[derive(Debug, Clone)]
pub struct EpCfg {
    pub initial_window_size: Option<u32>,
    pub initial_connection_window_size: Option<u32>,
    pub max_frame_size: Option<u32>,
    pub max_concurrent_streams: Option<u32>,
    pub initial_max_send_streams: Option<usize>,
    pub header_table_size: Option<u32>,
    pub max_header_list_size: Option<u32>,
    pub max_send_buffer_size: Option<usize>,
    pub reset_stream_duration: Option<Duration>,
    pub max_concurrent_reset_streams: Option<usize>,
    pub max_pending_accept_reset_streams: Option<usize>,
    pub max_local_error_reset_streams: Option<Option<usize>>,
    pub enable_push: Option<bool>,
    pub enable_connect_protocol: bool,
    pub data_frame_budget: Option<usize>,
    pub initial_stream_id: Option<u32>,
}

impl EpCfg {
    pub fn default_cfg() -> EpCfg {
        EpCfg {
            initial_window_size: None,
            initial_connection_window_size: None,
            max_frame_size: None,
            max_concurrent_streams: None,
            initial_max_send_streams: None,
            header_table_size: None,
            max_header_list_size: None,
            max_send_buffer_size: None,
            reset_stream_duration: None,
            max_concurrent_reset_streams: None,
            max_pending_accept_reset_streams: None,
            max_local_error_reset_streams: None,
            enable_push: None,
            enable_connect_protocol: false,
            data_frame_budget: None,
            initial_stream_id: None,
        }
    }

    pub fn iws(&self) -> u32 {
        self.initial_window_size.unwrap_or(65_535)
    }
    pub fn conn_target(&self) -> u32 {
        self.initial_connection_window_size.unwrap_or(65_535)
    }
    pub fn mfs(&self) -> u32 {
        self.max_frame_size.unwrap_or(16_384)
    }

    pub fn client_builder(&self) -> h2::client::Builder {
        let mut b = h2::client::Builder::new();
        if let Some(v) = self.initial_window_size {
            b.initial_window_size(v);
        }
        if let Some(v) = self.initial_connection_window_size {
            b.initial_connection_window_size(v);
        }
        if let Some(v) = self.max_frame_size {
            b.max_frame_size(v);
        }
        if let Some(v) = self.max_concurrent_streams {
            b.max_concurrent_streams(v);
        }
        if let Some(v) = self.initial_max_send_streams {
            b.initial_max_send_streams(v);
        }
        if let Some(v) = self.header_table_size {
            b.header_table_size(v);
        }
        if let Some(v) = self.max_header_list_size {
            b.max_header_list_size(v);
        }
        if let Some(v) = self.max_send_buffer_size {
            b.max_send_buffer_size(v);
        }
        if let Some(v) = self.reset_stream_duration {
            b.reset_stream_duration(v);
        }
        if let Some(v) = self.max_concurrent_reset_streams {
            b.max_concurrent_reset_streams(v);
        }
        if let Some(v) = self.max_pending_accept_reset_streams {
            b.max_pending_accept_reset_streams(v);
        }
        if let Some(v) = self.max_local_error_reset_streams {
            b.max_local_error_reset_streams(v);
        }
        if let Some(v) = self.enable_push {
            b.enable_push(v);
        }
        if let Some(v) = self.data_frame_budget {
            b.data_frame_budget(v);
        }
        if let Some(v) = self.initial_stream_id {
            b.initial_stream_id(v);
        }
        b
    }

    pub fn server_builder(&self) -> h2::server::Builder {
        let mut b = h2::server::Builder::new();
        if let Some(v) = self.initial_window_size {
            b.initial_window_size(v);
        }
        if let Some(v) = self.initial_connection_window_size {
            b.initial_connection_window_size(v);
        }
        if let Some(v) = self.max_frame_size {
            b.max_frame_size(v);
        }
        if let Some(v) = self.max_concurrent_streams {
            b.max_concurrent_streams(v);
        }
        if let Some(v) = self.header_table_size {
            b.header_table_size(v);
        }
        if let Some(v) = self.max_header_list_size {
            b.max_header_list_size(v);
        }
        if let Some(v) = self.max_send_buffer_size {
            b.max_send_buffer_size(v);
        }
        if let Some(v) = self.reset_stream_duration {
            b.reset_stream_duration(v);
        }
        if let Some(v) = self.max_concurrent_reset_streams {
            b.max_concurrent_reset_streams(v);
        }
        if let Some(v) = self.max_pending_accept_reset_streams {
            b.max_pending_accept_reset_streams(v);
        }
        if let Some(v) = self.max_local_error_reset_streams {
            b.max_local_error_reset_streams(v);
        }
        if self.enable_connect_protocol {
            b.enable_connect_protocol();
        }
        if let Some(v) = self.data_frame_budget {
            b.data_frame_budget(v);
        }
        b
    }

    pub fn to_json(&self) -> serde_json::Value {
        serde_json::json!({
            "iws": self.initial_window_size,
            "conn_window": self.initial_connection_window_size,
            "max_frame_size": self.max_frame_size,
            "max_concurrent_streams": self.max_concurrent_streams,
            "initial_max_send_streams": self.initial_max_send_streams,
            "header_table_size": self.header_table_size,
            "max_header_list_size": self.max_header_list_size,
            "max_send_buffer_size": self.max_send_buffer_size,
            "reset_stream_duration_ms": self.reset_stream_duration.map(|d| d.as_millis() as u64),
            "max_concurrent_reset_streams": self.max_concurrent_reset_streams,
            "max_pending_accept_reset_streams": self.max_pending_accept_reset_streams,
            "enable_push": self.enable_push,
            "initial_stream_id": self.initial_stream_id,
        })
    }
}

/// Which configuration dimensions a profile lets the tape move.
#[derive(Debug, Clone, Copy)]
pub struct CfgSpace {
    pub windows: bool,
    pub tiny_windows: bool,
    pub frame_size: bool,
    pub concurrency: bool,
    pub zero_concurrency: bool,
    pub header_table: bool,
    pub header_list: bool,
    pub send_buffer: bool,
    pub reset_limits: bool,
}

impl CfgSpace {
    pub fn all() -> CfgSpace {
        CfgSpace {
            windows: true,
            tiny_windows: true,
            frame_size: true,
            concurrency: true,
            zero_concurrency: false,
            header_table: true,
            header_list: false,
            send_buffer: true,
            reset_limits: true,
        }
    }
}

pub fn draw_epcfg(t: &Tape, sp: &CfgSpace) -> EpCfg {
    let mut c = EpCfg::default_cfg();
    // Every dimension: index 0 = library default.
    if sp.windows {
        let opts: &[Option<u32>] = if sp.tiny_windows {
            &[None, Some(65_535), Some(1), Some(2), Some(100), Some(999), Some(16_383), Some(16_384), Some(16_385), Some(1 << 20), Some((1u32 << 31) - 1), Some(0)]
        } else {
            &[None, Some(65_535), Some(999), Some(16_383), Some(16_384), Some(16_385), Some(1 << 20), Some((1u32 << 31) - 1)]
        };
        c.initial_window_size = *t.pick(Lane::Cfg, opts);
        if c.initial_window_size == Some(0) && !sp.tiny_windows {
            c.initial_window_size = None;
        }
        let copts: &[Option<u32>] = &[None, Some(65_535), Some(70_000), Some(1 << 20), Some((1u32 << 31) - 1), Some(100), Some(16_384)];
        c.initial_connection_window_size = *t.pick(Lane::Cfg, copts);
    }
    if sp.frame_size {
        let opts: &[Option<u32>] = &[None, Some(16_384), Some(16_385), Some(20_000), Some(65_536), Some((1 << 24) - 1)];
        c.max_frame_size = *t.pick(Lane::Cfg, opts);
    }
    if sp.concurrency {
        let opts: &[Option<u32>] = &[None, Some(1), Some(2), Some(5), Some(100)];
        c.max_concurrent_streams = *t.pick(Lane::Cfg, opts);
        if sp.zero_concurrency && t.chance(Lane::Cfg, 1, 8) {
            c.max_concurrent_streams = Some(0);
        }
        let o2: &[Option<usize>] = &[None, Some(1), Some(3), Some(1000)];
        c.initial_max_send_streams = *t.pick(Lane::Cfg, o2);
    }
    if sp.header_table {
        let opts: &[Option<u32>] = &[None, Some(4096), Some(0), Some(1), Some(64), Some(128), Some(65_536)];
        c.header_table_size = *t.pick(Lane::Cfg, opts);
    }
    if sp.header_list {
        let opts: &[Option<u32>] = &[None, Some(16 << 10), Some(1024), Some(64)];
        c.max_header_list_size = *t.pick(Lane::Cfg, opts);
    }
    if sp.send_buffer {
        let opts: &[Option<usize>] = &[None, Some(400 << 10), Some(16 << 10), Some(100), Some(1)];
        c.max_send_buffer_size = *t.pick(Lane::Cfg, opts);
    }
    if sp.reset_limits {
        let d: &[Option<Duration>] = &[None, Some(Duration::from_secs(30)), Some(Duration::from_secs(1)), Some(Duration::from_millis(1)), Some(Duration::ZERO)];
        c.reset_stream_duration = *t.pick(Lane::Cfg, d);
        let m: &[Option<usize>] = &[None, Some(50), Some(10), Some(1), Some(0)];
        c.max_concurrent_reset_streams = *t.pick(Lane::Cfg, m);
    }
    c
}

const NAME_POOL: &[&str] = &[
    "accept", "accept-encoding", "accept-language", "cache-control", "content-type", "cookie", "date", "etag", "user-agent", "vary", "via",
    "x-a", "x-b", "x-request-id", "x-forwarded-for", "authorization", "set-cookie", "server", "link", "location", "age", "x", "zz-custom-header-name",
];

pub fn gen_value(t: &Tape, max_len: usize) -> Vec<u8> {
    let class = t.draw(Lane::Work, 8);
    let len = match class {
        0 => 3,
        1 => 0,
        2 => 1,
        3 => t.range(Lane::Work, 2, 40) as usize,
        4 => t.range(Lane::Work, 41, 300) as usize,
        5 => t.range(Lane::Work, 100, 5000) as usize,
        6 => t.range(Lane::Work, 4000, 40_000) as usize,
        _ => t.range(Lane::Work, 1, 20) as usize,
    }
    .min(max_len);
    let obs = class == 7;
    let seed = t.draw(Lane::Work, 1 << 16);
    let mut v = Vec::with_capacity(len);
    let mut x = seed as u64 + 1;
    for i in 0..len {
        x = x.wrapping_mul(6364136223846793005).wrapping_add(1442695040888963407);
        let b = if obs && i % 3 == 0 { 0x80 + ((x >> 33) % 0x7f) as u8 } else { 0x21 + ((x >> 33) % 0x5e) as u8 };
        v.push(b);
    }
    // no leading/trailing whitespace issues: all bytes are visible (0x21..0x7e) or obs-text
    v
}

pub fn gen_name(t: &Tape) -> String {
    let n = gen_name_raw(t);
    // random tokens must not collide with names HTTP/2 gives a meaning to
    match n.as_str() {
        "te" | "connection" | "upgrade" | "host" | "trailer" | "expect" | "range" => format!("x{}", n),
        _ => n,
    }
}

fn gen_name_raw(t: &Tape) -> String {
    let class = t.draw(Lane::Work, 6);
    match class {
        0..=3 => t.pick(Lane::Work, NAME_POOL).to_string(),
        4 => {
            let len = t.range(Lane::Work, 1, 24) as usize;
            let seed = t.draw(Lane::Work, 1 << 16) as u64;
            let mut x = seed + 7;
            (0..len)
                .map(|_| {
                    x = x.wrapping_mul(6364136223846793005).wrapping_add(1442695040888963407);
                    (b'a' + ((x >> 33) % 26) as u8) as char
                })
                .collect()
        }
        _ => {
            let len = t.range(Lane::Work, 25, 200) as usize;
            let seed = t.draw(Lane::Work, 1 << 16) as u64;
            let mut x = seed + 11;
            (0..len)
                .map(|i| {
                    x = x.wrapping_mul(6364136223846793005).wrapping_add(1442695040888963407);
                    if i % 7 == 6 {
                        '-'
                    } else {
                        (b'a' + ((x >> 33) % 26) as u8) as char
                    }
                })
                .collect()
        }
    }
}

/// Regular (non-pseudo) header fields; `budget` caps the total size.
pub fn gen_headers(t: &Tape, max_fields: u32, budget: usize) -> Fields {
    let n = t.draw(Lane::Work, max_fields + 1);
    let mut out: Fields = Vec::new();
    let mut used = 0usize;
    for _ in 0..n {
        let repeat = !out.is_empty() && t.chance(Lane::Work, 1, 4);
        let (name, value) = if repeat {
            let i = t.draw(Lane::Work, out.len() as u32) as usize;
            if t.chance(Lane::Work, 1, 2) {
                (out[i].0.clone(), out[i].1.clone())
            } else {
                (out[i].0.clone(), gen_value(t, budget.saturating_sub(used)))
            }
        } else {
            (gen_name(t), gen_value(t, budget.saturating_sub(used)))
        };
        used += name.len() + value.len() + 32;
        if used > budget {
            break;
        }
        out.push((name, value));
    }
    out
}

pub fn header_map(f: &Fields, sensitive_mod: u32) -> http::HeaderMap {
    let mut m = http::HeaderMap::new();
    for (i, (n, v)) in f.iter().enumerate() {
        let name = http::header::HeaderName::from_bytes(n.as_bytes()).expect("generated header name");
        let mut val = http::header::HeaderValue::from_bytes(v).expect("generated header value");
        if sensitive_mod > 0 && (i as u32) % sensitive_mod == 0 {
            val.set_sensitive(true);
        }
        m.append(name, val);
    }
    m
}
