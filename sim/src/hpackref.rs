//! Reference RFC 7541 implementation (decoder, encoder with every representation choice,
//! Huffman from the RFC Appendix B text). Shares no code with /repo; validated against the
//! third-party fixture stories under /repo/fixtures/hpack (selftest `hpackref`).

use std::collections::VecDeque;
use std::sync::OnceLock;

const HUFF_TXT: &str = include_str!("huff_rfc7541_appendix_b.txt");

/// (code, bit length) for symbols 0..=256 (256 = EOS)
pub fn huff_codes() -> &'static Vec<(u32, u8)> {
    static T: OnceLock<Vec<(u32, u8)>> = OnceLock::new();
    T.get_or_init(|| {
        let mut v = Vec::with_capacity(257);
        for line in HUFF_TXT.lines() {
            if line.trim().is_empty() {
                continue;
            }
            // "... |bits|bits  hex  [len]"
            let lb = line.rfind('[').unwrap();
            let rb = line.rfind(']').unwrap();
            let len: u8 = line[lb + 1..rb].trim().parse().unwrap();
            // fixed layout of the RFC text: the bit pattern occupies columns 12..45
            let mut code: u32 = 0;
            let mut n = 0u8;
            for ch in line[12..45].chars() {
                match ch {
                    '1' => {
                        code = (code << 1) | 1;
                        n += 1;
                    }
                    '0' => {
                        code <<= 1;
                        n += 1;
                    }
                    _ => {}
                }
            }
            assert_eq!(n, len, "bad huffman line {:?}", line);
            v.push((code, len));
        }
        assert_eq!(v.len(), 257);
        v
    })
}

struct Trie {
    // node -> [child0, child1]; leaf encoded as -(sym+1)
    nodes: Vec<[i32; 2]>,
}

fn trie() -> &'static Trie {
    static T: OnceLock<Trie> = OnceLock::new();
    T.get_or_init(|| {
        let mut nodes: Vec<[i32; 2]> = vec![[0, 0]];
        for (sym, (code, len)) in huff_codes().iter().enumerate() {
            let mut cur = 0usize;
            for i in (0..*len).rev() {
                let bit = ((code >> i) & 1) as usize;
                if i == 0 {
                    nodes[cur][bit] = -(sym as i32 + 1);
                } else {
                    if nodes[cur][bit] == 0 {
                        nodes.push([0, 0]);
                        let id = nodes.len() as i32 - 1;
                        nodes[cur][bit] = id;
                    }
                    cur = nodes[cur][bit] as usize;
                }
            }
        }
        Trie { nodes }
    })
}

#[derive(Debug, Clone, Copy, PartialEq, Eq)]
pub enum HErr {
    Truncated,
    BadIndex,
    IntOverflow,
    /// integer longer than 5 octets but representable: implementations may reject
    IntImplLimit,
    HuffEos,
    HuffPaddingTooLong,
    HuffPaddingNotOnes,
    SizeUpdateMisplaced,
    SizeUpdateTooBig,
    SizeUpdateMissing,
}

pub fn huff_decode(src: &[u8]) -> Result<Vec<u8>, HErr> {
    let t = trie();
    let mut out = Vec::with_capacity(src.len() * 2);
    let mut cur = 0usize;
    let mut bits_in_cur = 0u32; // bits consumed since last symbol
    let mut all_ones = true;
    for &b in src {
        for i in (0..8).rev() {
            let bit = ((b >> i) & 1) as usize;
            if bit == 0 {
                all_ones = false;
            }
            let nx = t.nodes[cur][bit];
            bits_in_cur += 1;
            if nx < 0 {
                let sym = (-nx - 1) as usize;
                if sym == 256 {
                    return Err(HErr::HuffEos);
                }
                out.push(sym as u8);
                cur = 0;
                bits_in_cur = 0;
                all_ones = true;
            } else if nx == 0 {
                // not reachable: the code is complete
                return Err(HErr::HuffEos);
            } else {
                cur = nx as usize;
            }
        }
    }
    if bits_in_cur > 7 {
        return Err(HErr::HuffPaddingTooLong);
    }
    if bits_in_cur > 0 && !all_ones {
        return Err(HErr::HuffPaddingNotOnes);
    }
    Ok(out)
}

pub fn huff_encode(src: &[u8]) -> Vec<u8> {
    let codes = huff_codes();
    let mut out = Vec::new();
    let mut acc: u64 = 0;
    let mut n = 0u32;
    for &b in src {
        let (c, l) = codes[b as usize];
        acc = (acc << l) | c as u64;
        n += l as u32;
        while n >= 8 {
            out.push((acc >> (n - 8)) as u8);
            n -= 8;
        }
    }
    if n > 0 {
        let pad = 8 - n;
        out.push(((acc << pad) as u8) | ((1u16 << pad) - 1) as u8);
    }
    out
}

pub fn huff_len(src: &[u8]) -> usize {
    let codes = huff_codes();
    let bits: usize = src.iter().map(|b| codes[*b as usize].1 as usize).sum();
    (bits + 7) / 8
}

pub const STATIC_TABLE: [(&str, &str); 61] = [
    (":authority", ""),
    (":method", "GET"),
    (":method", "POST"),
    (":path", "/"),
    (":path", "/index.html"),
    (":scheme", "http"),
    (":scheme", "https"),
    (":status", "200"),
    (":status", "204"),
    (":status", "206"),
    (":status", "304"),
    (":status", "400"),
    (":status", "404"),
    (":status", "500"),
    ("accept-charset", ""),
    ("accept-encoding", "gzip, deflate"),
    ("accept-language", ""),
    ("accept-ranges", ""),
    ("accept", ""),
    ("access-control-allow-origin", ""),
    ("age", ""),
    ("allow", ""),
    ("authorization", ""),
    ("cache-control", ""),
    ("content-disposition", ""),
    ("content-encoding", ""),
    ("content-language", ""),
    ("content-length", ""),
    ("content-location", ""),
    ("content-range", ""),
    ("content-type", ""),
    ("cookie", ""),
    ("date", ""),
    ("etag", ""),
    ("expect", ""),
    ("expires", ""),
    ("from", ""),
    ("host", ""),
    ("if-match", ""),
    ("if-modified-since", ""),
    ("if-none-match", ""),
    ("if-range", ""),
    ("if-unmodified-since", ""),
    ("last-modified", ""),
    ("link", ""),
    ("location", ""),
    ("max-forwards", ""),
    ("proxy-authenticate", ""),
    ("proxy-authorization", ""),
    ("range", ""),
    ("referer", ""),
    ("refresh", ""),
    ("retry-after", ""),
    ("server", ""),
    ("set-cookie", ""),
    ("strict-transport-security", ""),
    ("transfer-encoding", ""),
    ("user-agent", ""),
    ("vary", ""),
    ("via", ""),
    ("www-authenticate", ""),
];

pub type Field = (Vec<u8>, Vec<u8>);

#[derive(Debug, Clone, Default)]
pub struct DynTable {
    pub entries: VecDeque<Field>,
    pub size: usize,
    pub max_size: usize,
}

impl DynTable {
    pub fn new(max: usize) -> DynTable {
        DynTable { entries: VecDeque::new(), size: 0, max_size: max }
    }
    pub fn entry_size(f: &Field) -> usize {
        f.0.len() + f.1.len() + 32
    }
    pub fn evict_to(&mut self, limit: usize) {
        while self.size > limit {
            let e = self.entries.pop_back().unwrap();
            self.size -= Self::entry_size(&e);
        }
    }
    pub fn resize(&mut self, max: usize) {
        self.max_size = max;
        self.evict_to(max);
    }
    pub fn insert(&mut self, f: Field) {
        let sz = Self::entry_size(&f);
        if sz > self.max_size {
            self.evict_to(0);
            return;
        }
        self.evict_to(self.max_size - sz);
        self.size += sz;
        self.entries.push_front(f);
    }
    /// 1-based index over static + dynamic
    pub fn get(&self, idx: usize) -> Option<Field> {
        if idx == 0 {
            None
        } else if idx <= 61 {
            let (n, v) = STATIC_TABLE[idx - 1];
            Some((n.as_bytes().to_vec(), v.as_bytes().to_vec()))
        } else {
            self.entries.get(idx - 62).cloned()
        }
    }
    pub fn len(&self) -> usize {
        61 + self.entries.len()
    }
    pub fn find(&self, name: &[u8], value: &[u8]) -> (Option<usize>, Option<usize>) {
        // (full match index, name match index)
        let mut full = None;
        let mut nm = None;
        for (i, (n, v)) in STATIC_TABLE.iter().enumerate() {
            if n.as_bytes() == name {
                if nm.is_none() {
                    nm = Some(i + 1);
                }
                if v.as_bytes() == value && full.is_none() {
                    full = Some(i + 1);
                }
            }
        }
        for (i, (n, v)) in self.entries.iter().enumerate() {
            if n == name {
                if nm.is_none() {
                    nm = Some(i + 62);
                }
                if v == value && full.is_none() {
                    full = Some(i + 62);
                }
            }
        }
        (full, nm)
    }
}

#[derive(Debug, Clone, Copy, PartialEq, Eq)]
pub enum Repr {
    Indexed,
    LitIncr,
    LitNoIndex,
    LitNever,
}

#[derive(Debug, Clone, PartialEq, Eq)]
pub struct Decoded {
    pub name: Vec<u8>,
    pub value: Vec<u8>,
    pub repr: Repr,
}

#[derive(Debug, Clone)]
pub struct RefDecoder {
    pub table: DynTable,
    /// the protocol limit (SETTINGS_HEADER_TABLE_SIZE this decoder's owner advertised and
    /// the encoder has been told about)
    pub settings_limit: usize,
    /// if the limit was reduced below the table's current maximum since the last block, the
    /// encoder must start its next block with a size update <= this value
    pub must_shrink_to: Option<usize>,
    pub impl_limit_seen: bool,
    pub max_table_size_seen: usize,
}

fn dec_int(src: &[u8], pos: &mut usize, prefix: u8) -> Result<(u64, usize), HErr> {
    let mask: u64 = (1u64 << prefix) - 1;
    let b = *src.get(*pos).ok_or(HErr::Truncated)?;
    *pos += 1;
    let mut v = (b as u64) & mask;
    if v < mask {
        return Ok((v, 1));
    }
    let mut shift = 0u32;
    let mut octets = 1usize;
    loop {
        let b = *src.get(*pos).ok_or(HErr::Truncated)?;
        *pos += 1;
        octets += 1;
        if shift >= 56 {
            return Err(HErr::IntOverflow);
        }
        v = v.checked_add(((b & 0x7f) as u64) << shift).ok_or(HErr::IntOverflow)?;
        shift += 7;
        if b & 0x80 == 0 {
            break;
        }
    }
    if v > u32::MAX as u64 {
        return Err(HErr::IntOverflow);
    }
    Ok((v, octets))
}

impl RefDecoder {
    pub fn new(limit: usize) -> RefDecoder {
        RefDecoder {
            table: DynTable::new(limit),
            settings_limit: limit,
            must_shrink_to: None,
            impl_limit_seen: false,
            max_table_size_seen: 0,
        }
    }

    /// The owner of this decoder changed SETTINGS_HEADER_TABLE_SIZE and the encoder side
    /// has acknowledged it.
    pub fn set_settings_limit(&mut self, limit: usize) {
        self.settings_limit = limit;
        if limit < self.table.max_size {
            self.must_shrink_to = Some(match self.must_shrink_to {
                Some(m) => m.min(limit),
                None => limit,
            });
        }
    }

    fn dec_str(&mut self, src: &[u8], pos: &mut usize) -> Result<Vec<u8>, HErr> {
        let huff = src.get(*pos).ok_or(HErr::Truncated)? & 0x80 != 0;
        let (len, oct) = dec_int(src, pos, 7)?;
        if oct > 5 {
            self.impl_limit_seen = true;
        }
        let len = len as usize;
        if src.len() < *pos + len {
            return Err(HErr::Truncated);
        }
        let raw = &src[*pos..*pos + len];
        *pos += len;
        if huff {
            huff_decode(raw)
        } else {
            Ok(raw.to_vec())
        }
    }

    /// Decode one complete header block. `strict_missing_update`: treat a missing mandatory
    /// size update as an error (used when judging an encoder).
    pub fn decode_block(&mut self, src: &[u8], strict_missing_update: bool) -> Result<Vec<Decoded>, HErr> {
        let mut pos = 0usize;
        let mut out = Vec::new();
        let mut seen_field = false;
        let mut first = true;
        self.impl_limit_seen = false;
        while pos < src.len() {
            let b = src[pos];
            if b & 0xe0 == 0x20 {
                // dynamic table size update
                if seen_field {
                    return Err(HErr::SizeUpdateMisplaced);
                }
                let (v, oct) = dec_int(src, &mut pos, 5)?;
                if oct > 5 {
                    self.impl_limit_seen = true;
                }
                if v as usize > self.settings_limit {
                    return Err(HErr::SizeUpdateTooBig);
                }
                if let Some(m) = self.must_shrink_to {
                    if v as usize <= m {
                        self.must_shrink_to = None;
                    }
                }
                self.table.resize(v as usize);
                first = false;
                continue;
            }
            if first || !seen_field {
                if strict_missing_update && self.must_shrink_to.is_some() {
                    return Err(HErr::SizeUpdateMissing);
                }
            }
            first = false;
            seen_field = true;
            if b & 0x80 != 0 {
                let (idx, oct) = dec_int(src, &mut pos, 7)?;
                if oct > 5 {
                    self.impl_limit_seen = true;
                }
                let f = self.table.get(idx as usize).ok_or(HErr::BadIndex)?;
                out.push(Decoded { name: f.0, value: f.1, repr: Repr::Indexed });
            } else {
                let (prefix, repr) = if b & 0xc0 == 0x40 {
                    (6, Repr::LitIncr)
                } else if b & 0xf0 == 0x10 {
                    (4, Repr::LitNever)
                } else {
                    (4, Repr::LitNoIndex)
                };
                let (idx, oct) = dec_int(src, &mut pos, prefix)?;
                if oct > 5 {
                    self.impl_limit_seen = true;
                }
                let name = if idx == 0 {
                    self.dec_str(src, &mut pos)?
                } else {
                    self.table.get(idx as usize).ok_or(HErr::BadIndex)?.0
                };
                let value = self.dec_str(src, &mut pos)?;
                if repr == Repr::LitIncr {
                    self.table.insert((name.clone(), value.clone()));
                }
                out.push(Decoded { name, value, repr });
            }
            self.max_table_size_seen = self.max_table_size_seen.max(self.table.size);
        }
        Ok(out)
    }
}

pub fn enc_int(out: &mut Vec<u8>, first_bits: u8, prefix: u8, v: u64, extra_octets: usize) {
    let mask: u64 = (1u64 << prefix) - 1;
    if v < mask && extra_octets == 0 {
        out.push(first_bits | v as u8);
        return;
    }
    if v < mask {
        // cannot pad a value that fits in the prefix
        out.push(first_bits | v as u8);
        return;
    }
    out.push(first_bits | mask as u8);
    let mut rest = v - mask;
    let mut bytes = Vec::new();
    loop {
        let b = (rest & 0x7f) as u8;
        rest >>= 7;
        if rest == 0 {
            bytes.push(b);
            break;
        }
        bytes.push(b | 0x80);
    }
    // non-minimal form: set continuation on the last byte and append zero groups
    for _ in 0..extra_octets {
        let l = bytes.len() - 1;
        bytes[l] |= 0x80;
        bytes.push(0);
    }
    out.extend_from_slice(&bytes);
}

pub fn enc_str(out: &mut Vec<u8>, s: &[u8], huff: bool, extra_octets: usize) {
    if huff {
        let h = huff_encode(s);
        enc_int(out, 0x80, 7, h.len() as u64, extra_octets);
        out.extend_from_slice(&h);
    } else {
        enc_int(out, 0x00, 7, s.len() as u64, extra_octets);
        out.extend_from_slice(s);
    }
}

/// How to encode one field (choices the harness draws).
#[derive(Debug, Clone, Copy)]
pub struct EncChoice {
    /// use a full-match index if one exists
    pub use_indexed: bool,
    /// use a name index if one exists
    pub use_name_index: bool,
    pub repr: Repr,
    pub huff_name: bool,
    pub huff_value: bool,
    pub nonminimal: u8,
}

impl EncChoice {
    pub fn plain() -> EncChoice {
        EncChoice { use_indexed: true, use_name_index: true, repr: Repr::LitIncr, huff_name: false, huff_value: false, nonminimal: 0 }
    }
}

#[derive(Debug, Clone)]
pub struct RefEncoder {
    pub table: DynTable,
}

impl RefEncoder {
    pub fn new(limit: usize) -> RefEncoder {
        RefEncoder { table: DynTable::new(limit) }
    }

    pub fn size_update(&mut self, out: &mut Vec<u8>, v: usize) {
        enc_int(out, 0x20, 5, v as u64, 0);
        self.table.resize(v);
    }

    pub fn field(&mut self, out: &mut Vec<u8>, name: &[u8], value: &[u8], c: EncChoice) {
        let (full, nm) = self.table.find(name, value);
        if c.use_indexed {
            if let Some(i) = full {
                enc_int(out, 0x80, 7, i as u64, c.nonminimal as usize);
                return;
            }
        }
        let (bits, prefix) = match c.repr {
            Repr::LitIncr | Repr::Indexed => (0x40u8, 6u8),
            Repr::LitNever => (0x10, 4),
            Repr::LitNoIndex => (0x00, 4),
        };
        match (c.use_name_index, nm) {
            (true, Some(i)) => enc_int(out, bits, prefix, i as u64, c.nonminimal as usize),
            _ => {
                out.push(bits);
                enc_str(out, name, c.huff_name, c.nonminimal as usize);
            }
        }
        enc_str(out, value, c.huff_value, c.nonminimal as usize);
        if matches!(c.repr, Repr::LitIncr | Repr::Indexed) {
            self.table.insert((name.to_vec(), value.to_vec()));
        }
    }
}

// ------------------------------------------------------------------------------------
// self test against third-party fixtures

fn hex(s: &str) -> Vec<u8> {
    (0..s.len() / 2).map(|i| u8::from_str_radix(&s[2 * i..2 * i + 2], 16).unwrap()).collect()
}

/// Returns (stories, cases, fields) checked, or an error description.
pub fn selftest_fixtures(root: &str) -> Result<(usize, usize, usize), String> {
    let mut stories = 0;
    let mut cases = 0;
    let mut fields = 0;
    let mut dirs: Vec<_> = std::fs::read_dir(root).map_err(|e| e.to_string())?.filter_map(|e| e.ok()).collect();
    dirs.sort_by_key(|e| e.path());
    for d in dirs {
        if !d.path().is_dir() {
            continue;
        }
        let name = d.file_name().to_string_lossy().to_string();
        if name == "raw-data" || name == "util" {
            continue;
        }
        let mut files: Vec<_> = std::fs::read_dir(d.path()).map_err(|e| e.to_string())?.filter_map(|e| e.ok()).collect();
        files.sort_by_key(|e| e.path());
        for f in files {
            let p = f.path();
            if p.extension().map(|e| e != "json").unwrap_or(true) {
                continue;
            }
            let txt = std::fs::read_to_string(&p).map_err(|e| e.to_string())?;
            let v: serde_json::Value = serde_json::from_str(&txt).map_err(|e| format!("{:?}: {}", p, e))?;
            let mut dec = RefDecoder::new(4096);
            stories += 1;
            for case in v["cases"].as_array().ok_or("no cases")? {
                if let Some(sz) = case.get("header_table_size").and_then(|x| x.as_u64()) {
                    // the fixture tells the decoder the settings limit in force
                    dec.settings_limit = sz as usize;
                }
                let wire = hex(case["wire"].as_str().ok_or("no wire")?);
                let got = dec
                    .decode_block(&wire, false)
                    .map_err(|e| format!("{:?} seq {}: {:?}", p, case["seqno"], e))?;
                let want: Vec<Field> = case["headers"]
                    .as_array()
                    .ok_or("no headers")?
                    .iter()
                    .map(|h| {
                        let o = h.as_object().unwrap();
                        let (k, v) = o.iter().next().unwrap();
                        (k.as_bytes().to_vec(), v.as_str().unwrap().as_bytes().to_vec())
                    })
                    .collect();
                let gotf: Vec<Field> = got.into_iter().map(|d| (d.name, d.value)).collect();
                if gotf != want {
                    return Err(format!("{:?} seq {}: field mismatch", p, case["seqno"]));
                }
                // round trip through the reference encoder with Huffman
                let mut enc = RefEncoder::new(4096);
                let mut d2 = RefDecoder::new(4096);
                let mut blk = Vec::new();
                for (i, (n, v)) in want.iter().enumerate() {
                    let mut c = EncChoice::plain();
                    c.huff_name = i % 2 == 0;
                    c.huff_value = i % 3 != 0;
                    c.nonminimal = (i % 4 == 3) as u8;
                    enc.field(&mut blk, n, v, c);
                }
                let back: Vec<Field> =
                    d2.decode_block(&blk, false).map_err(|e| format!("roundtrip {:?}", e))?.into_iter().map(|d| (d.name, d.value)).collect();
                if back != want {
                    return Err(format!("{:?} seq {}: reference encoder round trip mismatch", p, case["seqno"]));
                }
                cases += 1;
                fields += want.len();
            }
        }
    }
    Ok((stories, cases, fields))
}
