//! Independent RFC 9113 frame parser / serialiser (shares no code with /repo).

pub const DATA: u8 = 0;
pub const HEADERS: u8 = 1;
pub const PRIORITY: u8 = 2;
pub const RST_STREAM: u8 = 3;
pub const SETTINGS: u8 = 4;
pub const PUSH_PROMISE: u8 = 5;
pub const PING: u8 = 6;
pub const GOAWAY: u8 = 7;
pub const WINDOW_UPDATE: u8 = 8;
pub const CONTINUATION: u8 = 9;

pub const F_END_STREAM: u8 = 0x1;
pub const F_ACK: u8 = 0x1;
pub const F_END_HEADERS: u8 = 0x4;
pub const F_PADDED: u8 = 0x8;
pub const F_PRIORITY: u8 = 0x20;

pub const PREFACE: &[u8] = b"PRI * HTTP/2.0\r\n\r\nSM\r\n\r\n";

pub const S_HEADER_TABLE_SIZE: u16 = 1;
pub const S_ENABLE_PUSH: u16 = 2;
pub const S_MAX_CONCURRENT_STREAMS: u16 = 3;
pub const S_INITIAL_WINDOW_SIZE: u16 = 4;
pub const S_MAX_FRAME_SIZE: u16 = 5;
pub const S_MAX_HEADER_LIST_SIZE: u16 = 6;
pub const S_ENABLE_CONNECT_PROTOCOL: u16 = 8;

pub const NO_ERROR: u32 = 0;
pub const PROTOCOL_ERROR: u32 = 1;
pub const INTERNAL_ERROR: u32 = 2;
pub const FLOW_CONTROL_ERROR: u32 = 3;
pub const SETTINGS_TIMEOUT: u32 = 4;
pub const STREAM_CLOSED: u32 = 5;
pub const FRAME_SIZE_ERROR: u32 = 6;
pub const REFUSED_STREAM: u32 = 7;
pub const CANCEL: u32 = 8;
pub const COMPRESSION_ERROR: u32 = 9;
pub const ENHANCE_YOUR_CALM: u32 = 11;

pub fn type_name(t: u8) -> &'static str {
    match t {
        0 => "DATA",
        1 => "HEADERS",
        2 => "PRIORITY",
        3 => "RST_STREAM",
        4 => "SETTINGS",
        5 => "PUSH_PROMISE",
        6 => "PING",
        7 => "GOAWAY",
        8 => "WINDOW_UPDATE",
        9 => "CONTINUATION",
        _ => "UNKNOWN",
    }
}

#[derive(Debug, Clone, PartialEq, Eq)]
pub struct RawFrame {
    pub ty: u8,
    pub flags: u8,
    pub sid: u32,
    pub r_bit: bool,
    pub payload: Vec<u8>,
    /// offset of the first head byte in the byte stream it was parsed from
    pub offset: u64,
}

impl RawFrame {
    pub fn new(ty: u8, flags: u8, sid: u32, payload: Vec<u8>) -> RawFrame {
        RawFrame { ty, flags, sid, r_bit: false, payload, offset: 0 }
    }

    pub fn encode(&self) -> Vec<u8> {
        self.encode_with_len(self.payload.len() as u32)
    }

    /// Serialise with an explicit (possibly lying) length field.
    pub fn encode_with_len(&self, len: u32) -> Vec<u8> {
        let mut v = Vec::with_capacity(9 + self.payload.len());
        v.push((len >> 16) as u8);
        v.push((len >> 8) as u8);
        v.push(len as u8);
        v.push(self.ty);
        v.push(self.flags);
        let sid = (self.sid & 0x7fff_ffff) | if self.r_bit { 0x8000_0000 } else { 0 };
        v.extend_from_slice(&sid.to_be_bytes());
        v.extend_from_slice(&self.payload);
        v
    }

    pub fn end_stream(&self) -> bool {
        (self.ty == DATA || self.ty == HEADERS) && self.flags & F_END_STREAM != 0
    }
    pub fn end_headers(&self) -> bool {
        (self.ty == HEADERS || self.ty == PUSH_PROMISE || self.ty == CONTINUATION) && self.flags & F_END_HEADERS != 0
    }
    pub fn is_ack(&self) -> bool {
        (self.ty == SETTINGS || self.ty == PING) && self.flags & F_ACK != 0
    }

    pub fn u32_at(&self, i: usize) -> Option<u32> {
        self.payload.get(i..i + 4).map(|b| u32::from_be_bytes([b[0], b[1], b[2], b[3]]))
    }

    /// For DATA/HEADERS/PUSH_PROMISE: (pad_len, body range) after removing padding;
    /// None if the padding is invalid.
    pub fn unpadded(&self) -> Option<(usize, &[u8])> {
        if (self.ty == DATA || self.ty == HEADERS || self.ty == PUSH_PROMISE) && self.flags & F_PADDED != 0 {
            let pad = *self.payload.first()? as usize;
            let rest = &self.payload[1..];
            if pad > rest.len() {
                return None;
            }
            Some((pad, &rest[..rest.len() - pad]))
        } else {
            Some((0, &self.payload[..]))
        }
    }

    /// Header block fragment carried by HEADERS / PUSH_PROMISE / CONTINUATION.
    pub fn fragment(&self) -> Option<&[u8]> {
        match self.ty {
            CONTINUATION => Some(&self.payload),
            HEADERS => {
                let (_, body) = self.unpadded()?;
                if self.flags & F_PRIORITY != 0 {
                    body.get(5..)
                } else {
                    Some(body)
                }
            }
            PUSH_PROMISE => {
                let (_, body) = self.unpadded()?;
                body.get(4..)
            }
            _ => None,
        }
    }

    pub fn promised_id(&self) -> Option<u32> {
        if self.ty != PUSH_PROMISE {
            return None;
        }
        let (_, body) = self.unpadded()?;
        body.get(0..4).map(|b| u32::from_be_bytes([b[0], b[1], b[2], b[3]]) & 0x7fff_ffff)
    }

    pub fn settings(&self) -> Vec<(u16, u32)> {
        self.payload
            .chunks_exact(6)
            .map(|c| (u16::from_be_bytes([c[0], c[1]]), u32::from_be_bytes([c[2], c[3], c[4], c[5]])))
            .collect()
    }

    pub fn describe(&self) -> String {
        let mut s = format!("{}(s={},fl={:#x},len={}", type_name(self.ty), self.sid, self.flags, self.payload.len());
        match self.ty {
            RST_STREAM => {
                if let Some(c) = self.u32_at(0) {
                    s.push_str(&format!(",code={}", c));
                }
            }
            GOAWAY => {
                if let (Some(l), Some(c)) = (self.u32_at(0), self.u32_at(4)) {
                    s.push_str(&format!(",last={},code={}", l & 0x7fff_ffff, c));
                }
            }
            WINDOW_UPDATE => {
                if let Some(c) = self.u32_at(0) {
                    s.push_str(&format!(",inc={}", c & 0x7fff_ffff));
                }
            }
            SETTINGS => {
                s.push_str(&format!(",{:?}", self.settings()));
            }
            PUSH_PROMISE => {
                s.push_str(&format!(",promised={:?}", self.promised_id()));
            }
            _ => {}
        }
        s.push(')');
        s
    }
}

/// Incremental parser over a growing byte stream (the wire tap).
#[derive(Debug, Clone)]
pub struct FrameParser {
    pub pos: usize,
    pub expect_preface: bool,
    pub bad_preface: bool,
    pub frames: u64,
}

impl FrameParser {
    pub fn new(expect_preface: bool) -> FrameParser {
        FrameParser { pos: 0, expect_preface, bad_preface: false, frames: 0 }
    }

    /// Parse the next complete frame from `stream[self.pos..]`, if any.
    pub fn next(&mut self, stream: &[u8]) -> Option<RawFrame> {
        if self.expect_preface {
            if stream.len() < self.pos + PREFACE.len() {
                return None;
            }
            if &stream[self.pos..self.pos + PREFACE.len()] != PREFACE {
                self.bad_preface = true;
            }
            self.pos += PREFACE.len();
            self.expect_preface = false;
        }
        let b = &stream[self.pos..];
        if b.len() < 9 {
            return None;
        }
        let len = ((b[0] as usize) << 16) | ((b[1] as usize) << 8) | b[2] as usize;
        if b.len() < 9 + len {
            return None;
        }
        let sidraw = u32::from_be_bytes([b[5], b[6], b[7], b[8]]);
        let f = RawFrame {
            ty: b[3],
            flags: b[4],
            sid: sidraw & 0x7fff_ffff,
            r_bit: sidraw & 0x8000_0000 != 0,
            payload: b[9..9 + len].to_vec(),
            offset: self.pos as u64,
        };
        self.pos += 9 + len;
        self.frames += 1;
        Some(f)
    }

    /// Head of an incomplete trailing frame, if at least 9 bytes are there.
    pub fn peek_head(&self, stream: &[u8]) -> Option<(usize, u8, u8, u32)> {
        let b = &stream[self.pos.min(stream.len())..];
        if b.len() < 9 {
            return None;
        }
        let len = ((b[0] as usize) << 16) | ((b[1] as usize) << 8) | b[2] as usize;
        Some((len, b[3], b[4], u32::from_be_bytes([b[5], b[6], b[7], b[8]]) & 0x7fff_ffff))
    }
}

pub fn settings_frame(items: &[(u16, u32)]) -> RawFrame {
    let mut p = Vec::new();
    for (k, v) in items {
        p.extend_from_slice(&k.to_be_bytes());
        p.extend_from_slice(&v.to_be_bytes());
    }
    RawFrame::new(SETTINGS, 0, 0, p)
}
pub fn settings_ack() -> RawFrame {
    RawFrame::new(SETTINGS, F_ACK, 0, vec![])
}
pub fn ping(payload: [u8; 8], ack: bool) -> RawFrame {
    RawFrame::new(PING, if ack { F_ACK } else { 0 }, 0, payload.to_vec())
}
pub fn window_update(sid: u32, inc: u32) -> RawFrame {
    RawFrame::new(WINDOW_UPDATE, 0, sid, inc.to_be_bytes().to_vec())
}
pub fn rst_stream(sid: u32, code: u32) -> RawFrame {
    RawFrame::new(RST_STREAM, 0, sid, code.to_be_bytes().to_vec())
}
pub fn goaway(last: u32, code: u32, debug: &[u8]) -> RawFrame {
    let mut p = Vec::new();
    p.extend_from_slice(&last.to_be_bytes());
    p.extend_from_slice(&code.to_be_bytes());
    p.extend_from_slice(debug);
    RawFrame::new(GOAWAY, 0, 0, p)
}
pub fn data(sid: u32, body: &[u8], eos: bool, pad: Option<u8>) -> RawFrame {
    let mut flags = if eos { F_END_STREAM } else { 0 };
    let mut p = Vec::new();
    if let Some(n) = pad {
        flags |= F_PADDED;
        p.push(n);
        p.extend_from_slice(body);
        p.extend(std::iter::repeat(0u8).take(n as usize));
    } else {
        p.extend_from_slice(body);
    }
    RawFrame::new(DATA, flags, sid, p)
}
pub fn priority(sid: u32, dep: u32, exclusive: bool, weight: u8) -> RawFrame {
    let mut p = Vec::new();
    let d = (dep & 0x7fff_ffff) | if exclusive { 0x8000_0000 } else { 0 };
    p.extend_from_slice(&d.to_be_bytes());
    p.push(weight);
    RawFrame::new(PRIORITY, 0, sid, p)
}

/// Split a header block into HEADERS (+ CONTINUATION*) at the given cut offsets.
pub fn headers_frames(
    sid: u32,
    block: &[u8],
    eos: bool,
    cuts: &[usize],
    pad: Option<u8>,
    prio: Option<(u32, bool, u8)>,
) -> Vec<RawFrame> {
    let mut cuts: Vec<usize> = cuts.iter().copied().filter(|c| *c <= block.len()).collect();
    cuts.sort_unstable();
    let mut pieces: Vec<&[u8]> = Vec::new();
    let mut last = 0;
    for c in cuts {
        pieces.push(&block[last..c]);
        last = c;
    }
    pieces.push(&block[last..]);
    let n = pieces.len();
    let mut out = Vec::new();
    for (i, piece) in pieces.iter().enumerate() {
        let endh = if i == n - 1 { F_END_HEADERS } else { 0 };
        if i == 0 {
            let mut flags = endh | if eos { F_END_STREAM } else { 0 };
            let mut p = Vec::new();
            if let Some(n) = pad {
                flags |= F_PADDED;
                p.push(n);
            }
            if let Some((dep, ex, w)) = prio {
                flags |= F_PRIORITY;
                let d = (dep & 0x7fff_ffff) | if ex { 0x8000_0000 } else { 0 };
                p.extend_from_slice(&d.to_be_bytes());
                p.push(w);
            }
            p.extend_from_slice(piece);
            if let Some(n) = pad {
                p.extend(std::iter::repeat(0u8).take(n as usize));
            }
            out.push(RawFrame::new(HEADERS, flags, sid, p));
        } else {
            out.push(RawFrame::new(CONTINUATION, endh, sid, piece.to_vec()));
        }
    }
    out
}

pub fn push_promise_frames(sid: u32, promised: u32, block: &[u8], cuts: &[usize], pad: Option<u8>) -> Vec<RawFrame> {
    let mut v = headers_frames(sid, block, false, cuts, None, None);
    // rewrite the first frame into a PUSH_PROMISE
    let first = &mut v[0];
    let frag = first.payload.clone();
    let mut p = Vec::new();
    let mut flags = first.flags & F_END_HEADERS;
    if let Some(n) = pad {
        flags |= F_PADDED;
        p.push(n);
    }
    p.extend_from_slice(&promised.to_be_bytes());
    p.extend_from_slice(&frag);
    if let Some(n) = pad {
        p.extend(std::iter::repeat(0u8).take(n as usize));
    }
    first.ty = PUSH_PROMISE;
    first.flags = flags;
    first.payload = p;
    v
}
