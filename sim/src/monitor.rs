//! Wire monitors: one per endpoint, fed by the tap and by the endpoint's own ordered event
//! log (hook H3), so that every obligation is judged against exactly the input the
//! endpoint had processed when it created the frame in question.

use crate::hist::{Fields, Violation};
use crate::hpackref::RefDecoder;
use crate::wire::*;
use h2::verif::Ev;
use std::collections::{BTreeMap, VecDeque};

#[derive(Debug, Clone)]
pub struct SettingsView {
    pub iws: u32,
    pub mfs: u32,
    pub max_conc: Option<u32>,
    pub table: u32,
    pub push: bool,
    pub connect: bool,
}

impl Default for SettingsView {
    fn default() -> Self {
        SettingsView { iws: 65_535, mfs: 16_384, max_conc: None, table: 4096, push: true, connect: false }
    }
}

impl SettingsView {
    pub fn apply(&mut self, items: &[(u16, u32)]) {
        for (k, v) in items {
            match *k {
                S_HEADER_TABLE_SIZE => self.table = *v,
                S_ENABLE_PUSH => self.push = *v != 0,
                S_MAX_CONCURRENT_STREAMS => self.max_conc = Some(*v),
                S_INITIAL_WINDOW_SIZE => self.iws = *v,
                S_MAX_FRAME_SIZE => self.mfs = *v,
                S_ENABLE_CONNECT_PROTOCOL => self.connect = *v != 0,
                _ => {}
            }
        }
    }
}

#[derive(Debug, Clone, Default)]
pub struct StreamMon {
    pub local_init: bool,
    // E's sending half as seen on E's wire
    pub hdr_out: bool,
    pub final_hdr_out: bool,
    pub end_out: bool,
    pub rst_out: u32,
    pub rst_out_code: Option<u32>,
    pub data_after_rst: bool,
    // peer's half as processed by E
    pub hdr_in: bool,
    pub end_in: bool,
    pub rst_in: bool,
    pub rst_in_code: Option<u32>,
    /// executor step at which E processed the peer's first RST_STREAM; what E had emitted
    /// and processed on the stream by then
    pub rst_in_step: Option<u64>,
    /// every code the peer sent in RST_STREAM frames on this stream (a peer may answer a
    /// late frame with a second RST_STREAM(STREAM_CLOSED); h2 then reports the later one)
    pub rst_in_codes: Vec<u32>,
    pub end_in_before_rst: bool,
    pub end_out_before_rst: bool,
    // reserved by PUSH_PROMISE (out for a server, in for a client)
    pub reserved: bool,
    pub send_win: i64,
    pub wu_out: i64,
    pub data_in: i64,
    pub data_out: u64,
    pub counted_open: bool,
    pub in_frames_at_hdr_out: usize,
    /// DATA / HEADERS frames of the peer that E processed on this stream and that have not
    /// yet been "used" to justify a RST_STREAM(STREAM_CLOSED) answer. The instant at which
    /// E decided to close the stream (e.g. an implicit handle drop) is not observable on
    /// the wire, so any processed peer frame may be the late frame such an answer refers to.
    pub in_since_rst: u32,
    /// header blocks E emitted on this stream, decoded by the reference decoder
    pub blocks_out: Vec<(u8, bool, Fields)>,
}

impl StreamMon {
    /// both halves closed (or reset) from E's point of view, most favourable reading
    pub fn closed(&self) -> bool {
        self.rst_out > 0 || self.rst_in || (self.end_out && self.end_in)
    }
}

/// "Even under write back-pressure" read as bounded promptness: an acknowledgement waits
/// for transport capacity, not behind an unbounded amount of other traffic. h2 encodes it
/// before anything else (0); the limit leaves room for implementations that do not.
pub const ACK_OVERTAKE_LIMIT: u64 = 4;

pub struct EpMon {
    pub side: usize,
    pub is_client: bool,
    pub events: VecDeque<(Ev, u64)>,
    pub in_idx: usize,
    pub out_idx: usize,
    pub peer_acked: SettingsView,
    pub peer_pending: VecDeque<Vec<(u16, u32)>>,
    /// frames_out_other at the instant each still unanswered SETTINGS / PING was processed
    pub peer_pending_mark: VecDeque<u64>,
    pub pings_in_mark: VecDeque<u64>,
    /// frames E encoded, GOAWAY excluded
    pub frames_out_other: u64,
    pub own_sent: VecDeque<Vec<(u16, u32)>>,
    /// indices (into Monitor::violations) of "RST_STREAM on idle stream" reports since the
    /// last frame E emitted that was not a RST_STREAM
    pub idle_rst_reports: Vec<usize>,
    /// C18: CONTINUATION frames of one header block E may process before it has to give up
    /// (None = not asserted); frames processed in the current block
    pub max_continuations_allowed: Option<usize>,
    pub in_block_continuations: usize,
    /// in-frame index (1-based) of the last SETTINGS ACK that answered one of E's SETTINGS
    pub last_solicited_ack_in: usize,
    pub last_solicited_ack_step: u64,
    pub own_acked: SettingsView,
    pub own_iws_max: u32,
    pub conn_send_win: i64,
    pub conn_wu_out: i64,
    pub conn_data_in: i64,
    pub streams: BTreeMap<u32, StreamMon>,
    pub settings_in: u64,
    pub settings_acks_out: u64,
    pub pings_in: VecDeque<Vec<u8>>,
    pub ping_acks_out: u64,
    pub last_local_id: u32,
    pub max_peer_id: u32,
    pub goaway_out: Vec<(u32, u32, usize)>,
    /// executor step at which each GOAWAY was encoded
    pub goaway_out_step: Vec<u64>,
    pub goaway_in: Vec<(u32, u32, Vec<u8>)>,
    pub out_dec: RefDecoder,
    pub in_block_open: Option<u32>,
    pub in_block_first: Option<RawFrame>,
    pub open_local: i64,
    pub max_open_local: i64,
    pub frames_out: u64,
    pub frames_in: u64,
    pub data_bytes_out: u64,
    pub first_frame_checked: bool,
    /// maximum connection-window target the application has configured so far
    pub max_conn_target: i64,
    pub hpack_dead: bool,
    pub settings_out: u64,
    pub app_resets: BTreeMap<u32, u64>,
    /// simulated time at which E reset each stream (application call or first RST_STREAM
    /// seen by the monitor, whichever came first)
    pub reset_time: BTreeMap<u32, u64>,
    pub goaway_time: Option<u64>,
}

impl EpMon {
    pub fn new(side: usize, is_client: bool) -> EpMon {
        EpMon {
            side,
            is_client,
            events: VecDeque::new(),
            in_idx: 0,
            out_idx: 0,
            peer_acked: SettingsView::default(),
            peer_pending: VecDeque::new(),
            peer_pending_mark: VecDeque::new(),
            pings_in_mark: VecDeque::new(),
            frames_out_other: 0,
            own_sent: VecDeque::new(),
            idle_rst_reports: Vec::new(),
            max_continuations_allowed: None,
            in_block_continuations: 0,
            last_solicited_ack_in: 0,
            last_solicited_ack_step: 0,
            own_acked: SettingsView::default(),
            own_iws_max: 65_535,
            conn_send_win: 65_535,
            conn_wu_out: 0,
            conn_data_in: 0,
            streams: BTreeMap::new(),
            settings_in: 0,
            settings_acks_out: 0,
            pings_in: VecDeque::new(),
            ping_acks_out: 0,
            last_local_id: 0,
            max_peer_id: 0,
            goaway_out: Vec::new(),
            goaway_out_step: Vec::new(),
            goaway_in: Vec::new(),
            out_dec: RefDecoder::new(4096),
            in_block_open: None,
            in_block_first: None,
            open_local: 0,
            max_open_local: 0,
            frames_out: 0,
            frames_in: 0,
            data_bytes_out: 0,
            first_frame_checked: false,
            max_conn_target: 65_535,
            hpack_dead: false,
            settings_out: 0,
            app_resets: BTreeMap::new(),
            reset_time: BTreeMap::new(),
            goaway_time: None,
        }
    }

    fn local_parity(&self) -> u32 {
        if self.is_client {
            1
        } else {
            0
        }
    }
}

pub struct Monitor {
    pub parsers: [FrameParser; 2],
    pub frames: [Vec<RawFrame>; 2],
    pub ep: [EpMon; 2],
    pub violations: Vec<Violation>,
    pub probes: BTreeMap<&'static str, u64>,
    pub step: u64,
    /// side -> is that side a real h2 endpoint (has an event log)?
    pub real: [bool; 2],
    pub parse_garbage: [bool; 2],
    /// step at which the event being processed happened in the endpoint
    pub ev_step: u64,
    /// diagnostic call-site markers reported by the endpoints (hook H3)
    pub notes: [std::collections::BTreeSet<(&'static str, u32)>; 2],
    pub now_ns: u64,
}

fn name(side: usize) -> &'static str {
    if side == 0 {
        "client"
    } else {
        "server"
    }
}

impl Monitor {
    pub fn new(real: [bool; 2]) -> Monitor {
        Monitor {
            parsers: [FrameParser::new(true), FrameParser::new(false)],
            frames: [Vec::new(), Vec::new()],
            ep: [EpMon::new(0, true), EpMon::new(1, false)],
            violations: Vec::new(),
            probes: BTreeMap::new(),
            step: 0,
            real,
            parse_garbage: [false, false],
            ev_step: 0,
            notes: Default::default(),
            now_ns: 0,
        }
    }

    pub fn probe(&mut self, n: &'static str) {
        *self.probes.entry(n).or_insert(0) += 1;
    }

    fn viol(&mut self, prop: &'static str, oracle: &'static str, disc: impl Into<String>, msg: String) {
        let step = self.step;
        self.violations.push(Violation::new(prop, oracle, disc, msg, step));
    }

    /// Feed new tap bytes (whole tap slices; the parsers keep their own positions).
    pub fn feed_taps(&mut self, tap0: &[u8], tap1: &[u8]) {
        for (d, tap) in [(0usize, tap0), (1usize, tap1)] {
            while let Some(f) = self.parsers[d].next(tap) {
                self.frames[d].push(f);
            }
        }
    }

    pub fn push_events(&mut self, side: usize, evs: &[Ev], step: u64) {
        self.ep[side].events.extend(evs.iter().map(|e| (*e, step)));
    }

    /// The application of `side` reset the stream or dropped its last handle at `step`.
    pub fn note_app_reset(&mut self, side: usize, sid: u32, step: u64) {
        self.ep[side].app_resets.entry(sid).or_insert(step);
        let now = self.now_ns;
        self.ep[side].reset_time.entry(sid).or_insert(now);
    }

    /// Process as many endpoint events as the taps allow.
    pub fn advance(&mut self) {
        for side in 0..2 {
            if !self.real[side] {
                continue;
            }
            loop {
                let (ev, ev_step) = match self.ep[side].events.front() {
                    Some(e) => *e,
                    None => break,
                };
                self.ev_step = ev_step;
                match ev {
                    Ev::RawFrameIn => {
                        let k = self.ep[side].in_idx;
                        if k >= self.frames[1 - side].len() {
                            // The endpoint decoded something our parser has not seen as a
                            // frame (only possible with a garbage-producing scripted peer).
                            self.parse_garbage[side] = true;
                            self.ep[side].events.pop_front();
                            continue;
                        }
                        let f = self.frames[1 - side][k].clone();
                        self.ep[side].in_idx += 1;
                        self.ep[side].events.pop_front();
                        self.on_in(side, &f);
                    }
                    Ev::Note { site, id } => {
                        self.ep[side].events.pop_front();
                        self.notes[side].insert((site, id));
                    }
                    Ev::FrameOut => {
                        // need the complete frame group (HEADERS/PUSH_PROMISE + CONTINUATIONs)
                        let j = self.ep[side].out_idx;
                        let fr = &self.frames[side];
                        if j >= fr.len() {
                            break;
                        }
                        let mut end = j + 1;
                        if (fr[j].ty == HEADERS || fr[j].ty == PUSH_PROMISE) && !fr[j].end_headers() {
                            let mut done = false;
                            while end < fr.len() {
                                let c = &fr[end];
                                end += 1;
                                if c.ty != CONTINUATION || c.end_headers() {
                                    done = true;
                                    break;
                                }
                            }
                            if !done {
                                break;
                            }
                        }
                        let group: Vec<RawFrame> = fr[j..end].to_vec();
                        self.ep[side].out_idx = end;
                        self.ep[side].events.pop_front();
                        self.on_out(side, &group);
                    }
                }
            }
        }
    }

    // ---------------------------------------------------------------- input side

    fn on_in(&mut self, side: usize, f: &RawFrame) {
        let e = &mut self.ep[side];
        e.frames_in += 1;
        // header block assembly: effects of HEADERS/PUSH_PROMISE happen when END_HEADERS arrives
        if let Some(sid) = e.in_block_open {
            if f.ty == CONTINUATION && f.sid == sid {
                e.in_block_continuations += 1;
                if let Some(lim) = e.max_continuations_allowed {
                    if e.in_block_continuations == lim + 1 && e.goaway_out.is_empty() {
                        let n = e.in_block_continuations;
                        let who = name(side);
                        self.viol("C18", "bound", "continuation:frames", format!("{} processed {} CONTINUATION frames of one header block without giving up (allowed by its configuration: {})", who, n, lim));
                    }
                }
                let e = &mut self.ep[side];
                if f.end_headers() {
                    e.in_block_open = None;
                    let first = e.in_block_first.take().unwrap();
                    self.in_headers_done(side, &first);
                }
            }
            // anything else is a violation by the peer; E will fail the connection
            return;
        }
        match f.ty {
            SETTINGS => {
                if f.sid != 0 {
                    return;
                }
                if f.is_ack() {
                    if let Some(s) = e.own_sent.pop_front() {
                        e.own_acked.apply(&s);
                        if f.payload.is_empty() {
                            e.last_solicited_ack_in = e.in_idx;
                            e.last_solicited_ack_step = self.ev_step;
                        }
                    }
                } else if f.payload.len() % 6 == 0 {
                    e.settings_in += 1;
                    e.peer_pending.push_back(f.settings());
                    let m = e.frames_out_other;
                    e.peer_pending_mark.push_back(m);
                }
            }
            PING => {
                if f.sid == 0 && !f.is_ack() && f.payload.len() == 8 {
                    e.pings_in.push_back(f.payload.clone());
                    let m = e.frames_out_other;
                    e.pings_in_mark.push_back(m);
                }
            }
            WINDOW_UPDATE => {
                if let Some(inc) = f.u32_at(0) {
                    let inc = (inc & 0x7fff_ffff) as i64;
                    if f.payload.len() == 4 {
                        if f.sid == 0 {
                            e.conn_send_win += inc;
                        } else if let Some(s) = e.streams.get_mut(&f.sid) {
                            s.send_win += inc;
                        }
                    }
                }
            }
            DATA => {
                let len = f.payload.len() as i64;
                e.conn_data_in += len;
                let app_reset = e.app_resets.get(&f.sid).map(|t| self.ev_step >= *t).unwrap_or(false);
                if let Some(s) = e.streams.get_mut(&f.sid) {
                    s.data_in += len;
                    let _ = app_reset;
                    s.in_since_rst += 1;
                    if f.end_stream() {
                        s.end_in = true;
                    }
                }
                self.after_in_close(side, f.sid);
            }
            HEADERS | PUSH_PROMISE => {
                // a stream stops being idle when its first HEADERS frame arrives, even if the
                // header block is still incomplete
                if f.ty == HEADERS && f.sid % 2 != e.local_parity() && f.sid > e.max_peer_id {
                    e.max_peer_id = f.sid;
                }
                if f.end_headers() {
                    self.in_headers_done(side, f);
                } else {
                    e.in_block_open = Some(f.sid);
                    e.in_block_first = Some(f.clone());
                    e.in_block_continuations = 0;
                }
            }
            RST_STREAM => {
                let st = self.ev_step;
                if let Some(s) = e.streams.get_mut(&f.sid) {
                    if !s.rst_in {
                        s.rst_in_step = Some(st);
                        s.rst_in_code = f.u32_at(0);
                        s.end_in_before_rst = s.end_in;
                        s.end_out_before_rst = s.end_out;
                    }
                    s.rst_in = true;
                    if let Some(c) = f.u32_at(0) {
                        s.rst_in_codes.push(c);
                    }
                }
                self.after_in_close(side, f.sid);
            }
            GOAWAY => {
                if let (Some(l), Some(c)) = (f.u32_at(0), f.u32_at(4)) {
                    let l = l & 0x7fff_ffff;
                    e.goaway_in.push((l, c, f.payload[8..].to_vec()));
                    // the peer will not process E's streams above l: E fails them locally and
                    // they stop occupying concurrency slots, although no frame closes them
                    let mut freed = 0;
                    for (sid, s) in e.streams.iter_mut() {
                        if s.local_init && *sid > l && s.counted_open {
                            s.counted_open = false;
                            freed += 1;
                        }
                    }
                    e.open_local -= freed;
                }
            }
            _ => {}
        }
    }

    fn in_headers_done(&mut self, side: usize, first: &RawFrame) {
        let ev_step = self.ev_step;
        let e = &mut self.ep[side];
        let iws = e.peer_acked.iws as i64;
        if first.ty == PUSH_PROMISE {
            if let Some(pid) = first.promised_id() {
                let s = e.streams.entry(pid).or_default();
                s.reserved = true;
                s.local_init = false;
                s.send_win = iws;
                s.end_out = true; // a client never sends on a pushed stream
            }
            return;
        }
        let sid = first.sid;
        let parity_local = e.local_parity();
        let is_new = !e.streams.contains_key(&sid);
        if is_new && sid % 2 == parity_local {
            // HEADERS on a locally-numbered stream E never opened: peer violation
            return;
        }
        let app_reset = e.app_resets.get(&sid).map(|t| ev_step >= *t).unwrap_or(false);
        let s = e.streams.entry(sid).or_default();
        if is_new {
            s.local_init = false;
            s.send_win = iws;
            if sid > e.max_peer_id {
                e.max_peer_id = sid;
            }
        }
        s.hdr_in = true;
        let _ = app_reset;
        s.in_since_rst += 1;
        if first.end_stream() {
            s.end_in = true;
        }
        self.after_in_close(side, sid);
    }

    fn after_in_close(&mut self, side: usize, sid: u32) {
        let e = &mut self.ep[side];
        if let Some(s) = e.streams.get_mut(&sid) {
            if s.counted_open && s.closed() {
                s.counted_open = false;
                e.open_local -= 1;
            }
        }
    }

    // ---------------------------------------------------------------- output side

    fn on_out(&mut self, side: usize, group: &[RawFrame]) {
        let f = &group[0];
        let who = name(side);
        self.ep[side].frames_out += 1;
        if f.ty != GOAWAY {
            self.ep[side].frames_out_other += 1;
        }
        if f.ty != GOAWAY && f.ty != RST_STREAM {
            self.ep[side].idle_rst_reports.clear();
        }
        // ---- C12: frame size limit acknowledged by E
        let mfs = self.ep[side].peer_acked.mfs as usize;
        for g in group {
            if g.payload.len() > mfs {
                self.viol(
                    "C12",
                    "frame-too-large",
                    type_name(g.ty),
                    format!("{} emitted {} with payload {} > peer's acknowledged MAX_FRAME_SIZE {}", who, g.describe(), g.payload.len(), mfs),
                );
            }
        }
        if group.len() > 1 {
            self.probe("continuation_emitted");
            for g in &group[1..] {
                if g.ty != CONTINUATION || g.sid != f.sid {
                    self.viol("C04", "header-block-not-contiguous", type_name(g.ty), format!("{}: {} interleaved in header block of stream {}", who, g.describe(), f.sid));
                }
            }
        }
        // ---- C04: stream-zero discipline
        match f.ty {
            SETTINGS | PING | GOAWAY => {
                if f.sid != 0 {
                    self.viol("C04", "conn-frame-on-stream", type_name(f.ty), format!("{} emitted {}", who, f.describe()));
                }
            }
            DATA | HEADERS | RST_STREAM | PUSH_PROMISE | CONTINUATION | PRIORITY => {
                if f.sid == 0 {
                    self.viol("C04", "stream-frame-on-zero", type_name(f.ty), format!("{} emitted {}", who, f.describe()));
                }
            }
            WINDOW_UPDATE => {}
            _ => {}
        }
        if f.ty == CONTINUATION {
            self.viol("C04", "stray-continuation", "CONTINUATION", format!("{} emitted CONTINUATION without an open header block: {}", who, f.describe()));
        }
        if f.ty == DATA || f.ty == HEADERS || f.ty == PUSH_PROMISE {
            if f.flags & F_PADDED != 0 {
                self.probe("padding_emitted");
            }
        }
        match f.ty {
            SETTINGS => self.out_settings(side, f),
            PING => self.out_ping(side, f),
            GOAWAY => self.out_goaway(side, f),
            WINDOW_UPDATE => self.out_window_update(side, f),
            HEADERS => self.out_headers(side, group),
            PUSH_PROMISE => self.out_push_promise(side, group),
            DATA => self.out_data(side, f),
            RST_STREAM => self.out_rst(side, f),
            _ => {}
        }
    }

    fn out_settings(&mut self, side: usize, f: &RawFrame) {
        let who = name(side);
        if f.is_ack() {
            let e = &mut self.ep[side];
            e.settings_acks_out += 1;
            if !f.payload.is_empty() {
                self.viol("C12", "settings-ack-with-payload", "", format!("{} emitted SETTINGS ACK with payload", who));
                return;
            }
            let e = &mut self.ep[side];
            let popped = e.peer_pending.pop_front();
            // frames_out_other already counts this acknowledgement
            let overtaken = e.peer_pending_mark.pop_front().map(|m| e.frames_out_other.saturating_sub(m + 1)).unwrap_or(0);
            if overtaken > ACK_OVERTAKE_LIMIT {
                self.viol("C14", "settings-ack-overtaken", "", format!("{} encoded {} other frames between processing a SETTINGS frame and acknowledging it", who, overtaken));
            }
            let e = &mut self.ep[side];
            match popped {
                None => {
                    let (a, b) = (e.settings_acks_out, e.settings_in);
                    self.viol("C14", "settings-ack-unsolicited", "", format!("{} emitted SETTINGS ACK #{} but had processed only {} SETTINGS", who, a, b));
                }
                Some(items) => {
                    let e = &mut self.ep[side];
                    let old_iws = e.peer_acked.iws as i64;
                    let old_table = e.peer_acked.table;
                    e.peer_acked.apply(&items);
                    let delta = e.peer_acked.iws as i64 - old_iws;
                    if delta != 0 {
                        for s in e.streams.values_mut() {
                            // every stream E may still send on
                            if !s.closed() {
                                s.send_win += delta;
                            }
                        }
                        if delta < 0 {
                            self.probe("peer_iws_lowered_midstream");
                        }
                    }
                    let e = &mut self.ep[side];
                    if e.peer_acked.table != old_table {
                        let t = e.peer_acked.table as usize;
                        e.out_dec.set_settings_limit(t);
                        self.probe("peer_table_size_changed");
                    }
                }
            }
        } else {
            let e = &mut self.ep[side];
            e.settings_out += 1;
            let items = f.settings();
            for (k, v) in &items {
                if *k == S_INITIAL_WINDOW_SIZE {
                    e.own_iws_max = e.own_iws_max.max(*v);
                }
            }
            e.own_sent.push_back(items);
        }
    }

    fn out_ping(&mut self, side: usize, f: &RawFrame) {
        let who = name(side);
        if f.payload.len() != 8 {
            self.viol("C12", "ping-bad-length", "", format!("{} emitted PING of length {}", who, f.payload.len()));
        }
        if f.is_ack() {
            let e = &mut self.ep[side];
            e.ping_acks_out += 1;
            let overtaken = e.pings_in_mark.pop_front().map(|m| e.frames_out_other.saturating_sub(m + 1)).unwrap_or(0);
            if overtaken > ACK_OVERTAKE_LIMIT {
                self.viol("C14", "ping-ack-overtaken", "", format!("{} encoded {} other frames between processing a PING and acknowledging it", who, overtaken));
            }
            let e = &mut self.ep[side];
            match e.pings_in.pop_front() {
                None => self.viol("C14", "ping-ack-unsolicited", "", format!("{} emitted a PING ACK that answers no processed PING", who)),
                Some(p) => {
                    if p != f.payload {
                        self.viol("C14", "ping-ack-payload", "", format!("{} PING ACK payload {:?} != oldest unanswered PING {:?}", who, f.payload, p));
                    }
                }
            }
        }
    }

    fn out_goaway(&mut self, side: usize, f: &RawFrame) {
        let who = name(side);
        let now = self.now_ns;
        let ev_step = self.ev_step;
        if let (Some(l), Some(c)) = (f.u32_at(0), f.u32_at(4)) {
            let l = l & 0x7fff_ffff;
            let e = &mut self.ep[side];
            let prev = e.goaway_out.last().map(|x| x.0);
            let in_idx = e.in_idx;
            e.goaway_out.push((l, c, in_idx));
            e.goaway_out_step.push(ev_step);
            if c != 0 && e.goaway_time.is_none() {
                e.goaway_time = Some(now);
            }
            if c != 0 {
                // history discriminator (same defect as after a received GOAWAY): the queued
                // HEADERS were discarded by E's own connection error, whose GOAWAY follows
                let idxs = std::mem::take(&mut e.idle_rst_reports);
                for i in idxs {
                    if let Some(v) = self.violations.get_mut(i) {
                        if v.oracle == "frame-on-idle-stream" && v.disc == "RST_STREAM" {
                            v.disc = "RST_STREAM:stream-discarded-by-own-connection-error".into();
                            v.msg.push_str(" (its queued HEADERS were discarded by the endpoint's own connection error; the error GOAWAY follows)");
                        }
                    }
                }
            }
            let e = &mut self.ep[side];
            // C14: the frame E had just processed is the acknowledgement of a SETTINGS frame
            // E really sent; failing the connection over it treats it as answering nothing
            // (same poll: an application calling abrupt_shutdown(PROTOCOL_ERROR) later is not it)
            if c == 1 && in_idx > 0 && e.last_solicited_ack_in == in_idx && e.last_solicited_ack_step == ev_step {
                self.viol("C14", "solicited-settings-ack-rejected", "", format!("{} sent GOAWAY(PROTOCOL_ERROR) right after processing a SETTINGS ACK that answers a SETTINGS frame it had sent", who));
            }
            if let Some(p) = prev {
                if l > p {
                    self.viol("C15", "goaway-last-id-increased", "", format!("{} emitted GOAWAY(last={}) after GOAWAY(last={})", who, l, p));
                }
            }
        } else {
            self.viol("C12", "goaway-short", "", format!("{} emitted GOAWAY shorter than 8 bytes", who));
        }
    }

    fn out_window_update(&mut self, side: usize, f: &RawFrame) {
        let who = name(side);
        let inc = match f.u32_at(0) {
            Some(v) if f.payload.len() == 4 => (v & 0x7fff_ffff) as i64,
            _ => {
                self.viol("C12", "window-update-bad-length", "", format!("{} emitted {}", who, f.describe()));
                return;
            }
        };
        if inc == 0 {
            self.viol("C03", "window-update-zero", if f.sid == 0 { "conn" } else { "stream" }, format!("{} emitted WINDOW_UPDATE with increment 0 on stream {}", who, f.sid));
        }
        let e = &mut self.ep[side];
        if f.sid == 0 {
            e.conn_wu_out += inc;
            let adv = 65_535 + e.conn_wu_out - e.conn_data_in;
            let lim = e.max_conn_target.max(65_535);
            if adv > lim || adv > 0x7fff_ffff {
                let (w, d) = (e.conn_wu_out, e.conn_data_in);
                self.viol(
                    "C03",
                    "over-credit",
                    "conn",
                    format!("{} advertises connection window {} (65535 + WU {} - DATA processed {}) above the configured maximum {}", who, adv, w, d, lim),
                );
            }
        } else {
            let idle = self.is_idle(side, f.sid);
            let e = &mut self.ep[side];
            if idle {
                self.viol("C04", "frame-on-idle-stream", "WINDOW_UPDATE", format!("{} emitted WINDOW_UPDATE on idle stream {}", who, f.sid));
                return;
            }
            let mut over = None;
            let mut after_rst = false;
            if let Some(s) = e.streams.get_mut(&f.sid) {
                s.wu_out += inc;
                if s.wu_out > s.data_in {
                    over = Some((s.wu_out, s.data_in));
                }
                after_rst = s.rst_out > 0;
            }
            if let Some((w, d)) = over {
                self.viol(
                    "C03",
                    "over-credit",
                    "stream",
                    format!("{} credited stream {} with {} bytes of WINDOW_UPDATE but had processed only {} flow-controlled bytes on it", who, f.sid, w, d),
                );
            }
            if after_rst {
                self.viol("C04", "frame-after-rst", "WINDOW_UPDATE", format!("{} emitted WINDOW_UPDATE on stream {} after its own RST_STREAM", who, f.sid));
            }
        }
    }

    fn is_idle(&self, side: usize, sid: u32) -> bool {
        let e = &self.ep[side];
        if e.streams.contains_key(&sid) {
            return false;
        }
        if sid % 2 == e.local_parity() {
            sid > e.last_local_id
        } else {
            sid > e.max_peer_id
        }
    }

    fn decode_block(&mut self, side: usize, group: &[RawFrame]) -> Option<Fields> {
        let who = name(side);
        let mut block = Vec::new();
        for g in group {
            match g.fragment() {
                Some(fr) => block.extend_from_slice(fr),
                None => {
                    self.viol("C12", "bad-header-frame-layout", type_name(g.ty), format!("{} emitted {} with inconsistent padding/priority layout", who, g.describe()));
                    return None;
                }
            }
        }
        if self.ep[side].hpack_dead {
            return None;
        }
        match self.ep[side].out_dec.decode_block(&block, true) {
            Ok(fields) => {
                let out: Fields = fields.into_iter().map(|d| (String::from_utf8_lossy(&d.name).to_string(), d.value)).collect();
                Some(out)
            }
            Err(err) => {
                self.ep[side].hpack_dead = true;
                self.viol(
                    "C10",
                    "reference-decoder-rejects",
                    format!("{:?}", err),
                    format!("{}: header block on stream {} is rejected by the reference HPACK decoder: {:?} (block {} bytes)", who, group[0].sid, err, block.len()),
                );
                None
            }
        }
    }

    fn out_headers(&mut self, side: usize, group: &[RawFrame]) {
        let who = name(side);
        let f = &group[0];
        let sid = f.sid;
        let fields = self.decode_block(side, group);
        if sid == 0 {
            return;
        }
        let parity_local = self.ep[side].local_parity();
        let exists = self.ep[side].streams.contains_key(&sid);
        let in_idx = self.ep[side].in_idx;
        if !exists {
            // opening a new locally initiated stream
            if sid % 2 != parity_local {
                self.viol("C04", "headers-on-unknown-peer-stream", "", format!("{} emitted HEADERS on stream {} which the peer never opened", who, sid));
                return;
            }
            if !self.ep[side].is_client {
                self.viol("C04", "server-opened-stream-with-headers", "", format!("server emitted HEADERS on even stream {} without PUSH_PROMISE", sid));
            }
            if sid <= self.ep[side].last_local_id {
                let l = self.ep[side].last_local_id;
                self.viol("C04", "stream-id-not-increasing", "", format!("{} opened stream {} after stream {}", who, sid, l));
            }
            let e = &mut self.ep[side];
            e.last_local_id = e.last_local_id.max(sid);
            let mut s = StreamMon::default();
            s.local_init = true;
            s.send_win = e.peer_acked.iws as i64;
            s.counted_open = true;
            s.in_frames_at_hdr_out = in_idx;
            e.streams.insert(sid, s);
            e.open_local += 1;
            e.max_open_local = e.max_open_local.max(e.open_local);
            // ---- C05 outbound
            if let Some(limit) = e.peer_acked.max_conc {
                if e.open_local > limit as i64 {
                    let o = e.open_local;
                    self.viol(
                        "C05",
                        "exceeds-peer-max-concurrent-streams",
                        "",
                        format!("{} opened stream {} as its {}-th concurrently open stream; peer's acknowledged limit is {}", who, sid, o, limit),
                    );
                }
            }
            // requests submitted before the GOAWAY was processed and numbered at or below its
            // last-stream-id may still be opened ("run to completion"); anything above may not
            if let Some(g) = self.ep[side].goaway_in.iter().find(|g| g.0 < sid) {
                let l = g.0;
                self.viol("C15", "new-stream-after-goaway-received", "", format!("{} opened stream {} after processing a GOAWAY with last-stream-id {}", who, sid, l));
            }
        }
        let e = &mut self.ep[side];
        let s = e.streams.get_mut(&sid).unwrap();
        let mut viols: Vec<(&'static str, &'static str, String)> = Vec::new();
        if s.rst_out > 0 {
            viols.push(("C04", "frame-after-rst", format!("{} emitted HEADERS on stream {} after its own RST_STREAM", who, sid)));
        }
        if s.end_out && !(s.reserved && !s.hdr_out && !e.is_client) {
            viols.push(("C04", "frame-after-end-stream", format!("{} emitted HEADERS on stream {} after END_STREAM", who, sid)));
        }
        let mut push_limit_viol: Option<String> = None;
        if s.reserved && !e.is_client && !s.hdr_out {
            // pushed response head on a reserved(local) stream: opens the send half; from
            // here on the stream counts against the client's MAX_CONCURRENT_STREAMS
            // (RFC 9113 5.1.2: reserved streams do not count, half-closed ones do)
            s.end_out = false;
            let excluded = e.goaway_in.iter().any(|g| g.0 < sid);
            if !s.counted_open && s.rst_out == 0 && !s.rst_in && !excluded {
                s.counted_open = true;
                e.open_local += 1;
                e.max_open_local = e.max_open_local.max(e.open_local);
                if let Some(limit) = e.peer_acked.max_conc {
                    if e.open_local > limit as i64 {
                        push_limit_viol = Some(format!("{} opened pushed stream {} as its {}-th concurrently open stream; peer's acknowledged limit is {}", who, sid, e.open_local, limit));
                    }
                }
            }
        }
        // classify the block: 1xx informational / final head / trailers
        let status: Option<u16> = fields.as_ref().and_then(|fl| fl.iter().find(|(n, _)| n == ":status").and_then(|(_, v)| std::str::from_utf8(v).ok().and_then(|x| x.parse().ok())));
        let is_info = matches!(status, Some(100..=199));
        let kind: u8 = if !s.final_hdr_out {
            if is_info {
                1
            } else {
                0
            }
        } else {
            2
        };
        if kind == 2 && !f.end_stream() {
            viols.push(("C04", "trailers-without-end-stream", format!("{} emitted a second HEADERS without END_STREAM on stream {}", who, sid)));
        }
        if is_info && s.final_hdr_out {
            viols.push(("C04", "informational-after-final", format!("{} emitted a 1xx HEADERS after the final response head on stream {}", who, sid)));
        }
        if is_info && f.end_stream() {
            viols.push(("C04", "informational-with-end-stream", format!("{} emitted a 1xx HEADERS with END_STREAM on stream {}", who, sid)));
        }
        s.hdr_out = true;
        if !is_info {
            s.final_hdr_out = true;
        }
        if f.end_stream() {
            s.end_out = true;
        }
        if let Some(fl) = fields {
            s.blocks_out.push((kind, f.end_stream(), fl));
        }
        if s.counted_open && s.closed() {
            s.counted_open = false;
            e.open_local -= 1;
        }
        if let Some(m) = push_limit_viol {
            viols.push(("C05", "exceeds-peer-max-concurrent-streams", m));
        }
        for (p, o, m) in viols {
            self.viol(p, o, "HEADERS", m);
        }
    }

    fn out_push_promise(&mut self, side: usize, group: &[RawFrame]) {
        let who = name(side);
        let f = &group[0];
        let fields = self.decode_block(side, group);
        if self.ep[side].is_client {
            self.viol("C04", "client-sent-push-promise", "", format!("client emitted {}", f.describe()));
            return;
        }
        if !self.ep[side].peer_acked.push {
            self.viol("C14", "push-after-enable-push-0", "", format!("server emitted PUSH_PROMISE after acknowledging ENABLE_PUSH=0"));
        }
        let pid = match f.promised_id() {
            Some(p) => p,
            None => {
                self.viol("C12", "push-promise-short", "", format!("{} emitted {}", who, f.describe()));
                return;
            }
        };
        let e = &mut self.ep[side];
        let mut viols: Vec<(&'static str, String)> = Vec::new();
        match e.streams.get(&f.sid) {
            None => viols.push(("push-on-unknown-parent", format!("server emitted PUSH_PROMISE on stream {} it never received", f.sid))),
            Some(p) => {
                if p.rst_out > 0 {
                    viols.push(("push-on-reset-parent", format!("server emitted PUSH_PROMISE on parent {} after sending RST_STREAM on it", f.sid)));
                } else if p.end_out {
                    viols.push(("push-on-closed-parent", format!("server emitted PUSH_PROMISE on parent {} after sending END_STREAM on it", f.sid)));
                } else if p.rst_in {
                    viols.push(("push-on-peer-reset-parent", format!("server emitted PUSH_PROMISE on parent {} after processing the peer's RST_STREAM", f.sid)));
                }
            }
        }
        if pid % 2 != 0 || pid == 0 {
            viols.push(("push-odd-promised-id", format!("server promised stream id {}", pid)));
        }
        if pid <= e.last_local_id {
            viols.push(("stream-id-not-increasing", format!("server promised stream {} after stream {}", pid, e.last_local_id)));
        }
        e.last_local_id = e.last_local_id.max(pid);
        let mut s = StreamMon::default();
        s.local_init = true;
        s.reserved = true;
        s.send_win = e.peer_acked.iws as i64;
        s.end_in = true; // the client cannot send on a pushed stream
        s.hdr_in = true;
        if let Some(fl) = fields {
            s.blocks_out.push((3, false, fl));
        }
        e.streams.insert(pid, s);
        if !e.goaway_in.is_empty() {
            // a client's GOAWAY last-stream-id counts server-initiated (pushed) streams
            if e.goaway_in.iter().any(|g| g.0 < pid) {
                viols.push(("new-stream-after-goaway-received", format!("server promised stream {} after processing a GOAWAY that excludes it", pid)));
            }
        }
        for (o, m) in viols {
            // "no new streams after GOAWAY" is C15's clause (as for HEADERS above)
            self.viol(if o == "new-stream-after-goaway-received" { "C15" } else { "C04" }, o, "PUSH_PROMISE", m);
        }
    }

    fn out_data(&mut self, side: usize, f: &RawFrame) {
        let who = name(side);
        let len = f.payload.len() as i64;
        let sid = f.sid;
        if f.flags & F_PADDED != 0 {
            self.probe("padded_data_emitted");
        }
        if self.is_idle(side, sid) {
            self.viol("C04", "frame-on-idle-stream", "DATA", format!("{} emitted DATA on idle stream {}", who, sid));
            return;
        }
        let e = &mut self.ep[side];
        e.data_bytes_out += len as u64;
        let conn_before = e.conn_send_win;
        e.conn_send_win -= len;
        let mut viols: Vec<(&'static str, &'static str, &'static str, String)> = Vec::new();
        if len > 0 && len > conn_before {
            viols.push(("C02", "exceeds-connection-window", "", format!("{} emitted DATA(stream {}, {} bytes) with connection send window {}", who, sid, len, conn_before)));
        }
        let mut probes: Vec<&'static str> = Vec::new();
        match e.streams.get_mut(&sid) {
            None => viols.push(("C04", "data-on-unknown-stream", "", format!("{} emitted DATA on stream {} it has no record of", who, sid))),
            Some(s) => {
                let before = s.send_win;
                s.send_win -= len;
                s.data_out += len as u64;
                if len > 0 && len > before {
                    viols.push(("C02", "exceeds-stream-window", "", format!("{} emitted DATA(stream {}, {} bytes) with stream send window {}", who, sid, len, before)));
                }
                if len == 0 && f.end_stream() {
                    probes.push("empty_data_end_stream");
                }
                if len > 0 && len == before {
                    probes.push("data_exactly_fills_stream_window");
                }
                if len > 0 && len == conn_before {
                    probes.push("data_exactly_fills_conn_window");
                }
                if before <= 0 && len == 0 {
                    probes.push("zero_len_data_on_nonpositive_window");
                }
                if !s.hdr_out || (!s.final_hdr_out) {
                    viols.push(("C04", "data-before-headers", "DATA", format!("{} emitted DATA on stream {} before its (final) HEADERS", who, sid)));
                }
                if s.rst_out > 0 {
                    viols.push(("C04", "frame-after-rst", "DATA", format!("{} emitted DATA on stream {} after its own RST_STREAM", who, sid)));
                } else if s.end_out {
                    viols.push(("C04", "frame-after-end-stream", "DATA", format!("{} emitted DATA on stream {} after END_STREAM", who, sid)));
                }
                if f.end_stream() {
                    s.end_out = true;
                }
                if s.counted_open && s.closed() {
                    s.counted_open = false;
                    e.open_local -= 1;
                }
            }
        }
        for p in probes {
            self.probe(p);
        }
        for (p, o, d, m) in viols {
            self.viol(p, o, d, m);
        }
    }

    fn out_rst(&mut self, side: usize, f: &RawFrame) {
        let who = name(side);
        let sid = f.sid;
        if f.payload.len() != 4 {
            self.viol("C12", "rst-bad-length", "", format!("{} emitted {}", who, f.describe()));
            return;
        }
        if self.is_idle(side, sid) {
            // history discriminator: had E already processed a GOAWAY that excludes this stream?
            let after_goaway = self.ep[side].goaway_in.iter().any(|g| g.0 < sid);
            self.viol(
                "C04",
                "frame-on-idle-stream",
                if after_goaway { "RST_STREAM:stream-excluded-by-received-goaway" } else { "RST_STREAM" },
                format!("{} emitted RST_STREAM on idle stream {}{}", who, sid, if after_goaway { " (its queued HEADERS were discarded when a GOAWAY with a lower last-stream-id arrived)" } else { "" }),
            );
            if !after_goaway {
                let idx = self.violations.len() - 1;
                self.ep[side].idle_rst_reports.push(idx);
            }
            return;
        }
        let code = f.u32_at(0).unwrap();
        let now = self.now_ns;
        let e = &mut self.ep[side];
        e.reset_time.entry(sid).or_insert(now);
        let s = e.streams.entry(sid).or_default();
        s.rst_out += 1;
        if s.rst_out_code.is_none() {
            s.rst_out_code = Some(code);
        }
        let n = s.rst_out;
        let no_headers = s.local_init && !s.hdr_out && !s.reserved;
        // RFC 9113 5.1: an endpoint may bound how long it ignores frames on a stream it has
        // reset and answer later ones with RST_STREAM(STREAM_CLOSED); such an answer to a
        // late peer frame is not a second reset of the stream by the application.
        let late_answer = n > 1 && code == STREAM_CLOSED && s.in_since_rst > 0;
        if late_answer {
            s.in_since_rst -= 1;
        }
        if s.counted_open {
            s.counted_open = false;
            e.open_local -= 1;
        }
        if late_answer {
            self.probe("rst_stream_closed_answering_late_frame");
        } else if n > 1 {
            self.viol("C17", "duplicate-rst-stream", "", format!("{} emitted {} RST_STREAM frames on stream {} (last code {})", who, n, sid, code));
        }
        if no_headers {
            self.viol("C04", "rst-before-headers", "", format!("{} emitted RST_STREAM on locally initiated stream {} before its HEADERS", who, sid));
        }
    }

    /// End-of-run checks that need the whole trace.
    pub fn finish(&mut self, quiescent_clean: [bool; 2]) {
        for side in 0..2 {
            if !self.real[side] {
                continue;
            }
            let who = name(side);
            // C14: an acknowledgement may stay owed only because the connection ended before
            // it could be written; an endpoint that went on encoding other frames after it had
            // processed the SETTINGS / PING, and never the acknowledgement, has skipped it
            {
                let e = &self.ep[side];
                let pending_events = e.events.len();
                let out = e.frames_out_other;
                let s_skipped = e.peer_pending_mark.front().map(|m| out - *m).unwrap_or(0);
                let p_skipped = e.pings_in_mark.front().map(|m| out - *m).unwrap_or(0);
                // the acknowledgement itself is the first thing h2 encodes; two frames of slack
                // keep the oracle independent of that ordering detail
                if pending_events == 0 && s_skipped > 2 {
                    self.viol("C14", "settings-ack-skipped", "", format!("{} processed a SETTINGS frame, encoded {} further frames afterwards and never its acknowledgement", who, s_skipped));
                }
                if pending_events == 0 && p_skipped > 2 {
                    self.viol("C14", "ping-ack-skipped", "", format!("{} processed a PING, encoded {} further frames afterwards and never its acknowledgement", who, p_skipped));
                }
            }
            if quiescent_clean[side] {
                // C14: nothing owed
                let e = &self.ep[side];
                let owed_s = e.peer_pending.len();
                let owed_p = e.pings_in.len();
                let pending_events = e.events.len();
                if pending_events == 0 && owed_s > 0 {
                    self.viol("C14", "settings-ack-missing", "", format!("{} ended quiescent owing {} SETTINGS ACK(s)", who, owed_s));
                }
                if pending_events == 0 && owed_p > 0 {
                    self.viol("C14", "ping-ack-missing", "", format!("{} ended quiescent owing {} PING ACK(s)", who, owed_p));
                }
            }
        }
    }
}

impl EpMon {
    /// Could E legitimately have forgotten that it reset `sid` by the time `at_ns`?
    /// (h2 remembers at most `quota` locally reset streams, each for `duration_ns`.)
    /// Over-approximates forgetting, so that a frame on a possibly-forgotten stream is never
    /// judged.
    pub fn may_have_forgotten(&self, sid: u32, at_ns: u64, quota: usize, duration_ns: u64) -> bool {
        let t = match self.reset_time.get(&sid) {
            Some(t) => *t,
            None => return false,
        };
        if quota == 0 || duration_ns == 0 {
            return true;
        }
        if at_ns.saturating_sub(t) >= duration_ns {
            return true;
        }
        let earlier = self.reset_time.iter().filter(|(id, tt)| **id != sid && **tt <= t).count();
        earlier >= quota
    }
}
