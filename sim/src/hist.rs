//! Recorded API history: what each application submitted and what the peer application
//! obtained, per stream and direction, plus the violation type shared by all oracles.

use std::collections::BTreeMap;
use std::sync::{Arc, Mutex};

#[derive(Debug, Clone, PartialEq, Eq)]
pub struct Violation {
    pub prop: &'static str,
    pub oracle: &'static str,
    /// discriminator that, with prop and oracle, forms the signature used for
    /// minimisation and for known-finding matching
    pub disc: String,
    pub msg: String,
    pub step: u64,
}

impl Violation {
    pub fn new(prop: &'static str, oracle: &'static str, disc: impl Into<String>, msg: impl Into<String>, step: u64) -> Violation {
        Violation { prop, oracle, disc: disc.into(), msg: msg.into(), step }
    }
    pub fn signature(&self) -> String {
        format!("{}/{}/{}", self.prop, self.oracle, self.disc)
    }
}

/// name → ordered values; pseudo fields included under their ":name".
pub type Fields = Vec<(String, Vec<u8>)>;

/// Canonical form used for comparison: grouped by name (first-occurrence order is what
/// `http::HeaderMap` preserves per name; cross-name order is not observable through it).
pub fn canon(f: &Fields) -> BTreeMap<String, Vec<Vec<u8>>> {
    let mut m: BTreeMap<String, Vec<Vec<u8>>> = BTreeMap::new();
    for (n, v) in f {
        m.entry(n.clone()).or_default().push(v.clone());
    }
    m
}

pub fn fields_of_headermap(h: &http::HeaderMap) -> Fields {
    let mut out = Vec::new();
    for (n, v) in h.iter() {
        out.push((n.as_str().to_string(), v.as_bytes().to_vec()));
    }
    out
}

pub fn fields_of_request<T>(r: &http::Request<T>) -> Fields {
    let mut out = Vec::new();
    out.push((":method".to_string(), r.method().as_str().as_bytes().to_vec()));
    out.push((":uri".to_string(), r.uri().to_string().into_bytes()));
    if let Some(p) = r.extensions().get::<h2::ext::Protocol>() {
        out.push((":protocol".to_string(), p.as_str().as_bytes().to_vec()));
    }
    out.extend(fields_of_headermap(r.headers()));
    out
}

pub fn fields_of_response<T>(r: &http::Response<T>) -> Fields {
    let mut out = Vec::new();
    out.push((":status".to_string(), r.status().as_str().as_bytes().to_vec()));
    out.extend(fields_of_headermap(r.headers()));
    out
}

pub fn show_fields(f: &Fields) -> String {
    let mut s = String::new();
    for (n, v) in f.iter().take(12) {
        let vs = String::from_utf8_lossy(v);
        let vs: String = vs.chars().take(40).collect();
        s.push_str(&format!("{}={:?};", n, vs));
    }
    if f.len() > 12 {
        s.push_str(&format!("…(+{})", f.len() - 12));
    }
    s
}

/// Attributable body pattern: byte at offset `off` of direction `dir` on stream `sid`.
#[inline]
pub fn pat(dir: u8, sid: u32, off: u64) -> u8 {
    let x = (off.wrapping_mul(0x9E3779B97F4A7C15) ^ ((sid as u64) << 17) ^ ((dir as u64) << 7)).wrapping_mul(0xD6E8FEB86659FD93);
    (x >> 29) as u8
}

pub fn fill(dir: u8, sid: u32, off: u64, len: usize) -> bytes::Bytes {
    let mut v = Vec::with_capacity(len);
    for i in 0..len as u64 {
        v.push(pat(dir, sid, off + i));
    }
    bytes::Bytes::from(v)
}

#[derive(Debug, Clone, Default)]
pub struct DirRec {
    // ---- submitted (accepted by the send API) ----
    pub s_head: Option<Fields>,
    pub s_info: Vec<Fields>,
    pub s_body: u64,
    pub s_trailers: Option<Fields>,
    pub s_end: bool,
    /// the sending application reset / dropped the stream before submitting the end
    pub s_abort: Option<String>,
    /// pushed requests submitted on this (response) direction: (promised id, head)
    pub s_push: Vec<(u32, Fields)>,
    // ---- delivered (obtained by the receiving application) ----
    pub r_head: Option<Fields>,
    pub r_info: Vec<Fields>,
    pub r_body: u64,
    pub r_body_bad: Option<u64>,
    pub r_trailers: Option<Fields>,
    /// a clean end was reported (poll_data -> None and poll_trailers -> Ok)
    pub r_end: bool,
    pub r_is_end_stream_true: bool,
    pub r_err: Option<String>,
    pub r_push: Vec<(u32, Fields)>,
    /// the receiving application stopped reading on purpose
    pub r_stopped: bool,
    pub r_head_count: u32,
}

#[derive(Debug, Clone, Default)]
pub struct StreamRec {
    /// dirs[0] = request direction (client → server), dirs[1] = response direction
    pub dirs: [DirRec; 2],
}

#[derive(Debug, Clone)]
pub struct ApiEvent {
    pub step: u64,
    pub side: u8,
    pub sid: u32,
    pub what: String,
}

#[derive(Debug, Default)]
pub struct HistInner {
    pub streams: BTreeMap<u32, StreamRec>,
    pub log: Vec<ApiEvent>,
    pub violations: Vec<Violation>,
    pub step: u64,
    pub keep_log: bool,
    /// (side, sid, code, in-frames processed by that side, kind) for resets/drops by the app
    pub resets: Vec<ResetRec>,
    /// errors observed on handles: (side, sid, handle kind, rendered error facts)
    pub errors: Vec<ErrRec>,
    pub probes: BTreeMap<&'static str, u64>,
    /// streams accepted by each side and currently held by the application
    pub accepted_live: [i64; 2],
    pub accepted_max: [i64; 2],
    pub conn_results: [Option<Result<(), ErrFacts>>; 2],
    /// step at which the server application obtained each stream from accept()
    pub accept_step: BTreeMap<u32, u64>,
    /// step at which the client application obtained the response of each pushed stream
    pub pushed_taken_step: BTreeMap<u32, u64>,
    /// abrupt_shutdown(code) calls: (side, code, step)
    pub abrupt: Vec<(u8, u32, u64)>,
    pub graceful: Vec<(u8, u64)>,
    /// results of poll_reset waits: (side, sid, Ok(code) | Err(facts), step)
    pub reset_polls: Vec<(u8, u32, Result<u32, ErrFacts>, u64)>,
}

#[derive(Debug, Clone)]
pub struct ResetRec {
    pub side: u8,
    pub sid: u32,
    pub code: u32,
    pub kind: &'static str,
    pub step: u64,
}

#[derive(Debug, Clone, PartialEq, Eq)]
pub struct ErrFacts {
    pub reason: Option<u32>,
    pub is_reset: bool,
    pub is_go_away: bool,
    pub is_io: bool,
    pub is_remote: bool,
    pub is_library: bool,
    pub display: String,
}

impl ErrFacts {
    pub fn of(e: &h2::Error) -> ErrFacts {
        ErrFacts {
            reason: e.reason().map(u32::from),
            is_reset: e.is_reset(),
            is_go_away: e.is_go_away(),
            is_io: e.is_io(),
            is_remote: e.is_remote(),
            is_library: e.is_library(),
            display: e.to_string(),
        }
    }
}

#[derive(Debug, Clone)]
pub struct ErrRec {
    pub side: u8,
    pub sid: u32,
    pub handle: &'static str,
    pub facts: ErrFacts,
    pub step: u64,
}

#[derive(Clone, Default)]
pub struct Hist(pub Arc<Mutex<HistInner>>);

impl Hist {
    pub fn new(keep_log: bool) -> Hist {
        let h = Hist::default();
        h.0.lock().unwrap().keep_log = keep_log;
        h
    }
    pub fn with<R>(&self, f: impl FnOnce(&mut HistInner) -> R) -> R {
        let mut g = match self.0.lock() {
            Ok(g) => g,
            Err(p) => p.into_inner(),
        };
        f(&mut g)
    }
    pub fn log(&self, side: u8, sid: u32, what: impl FnOnce() -> String) {
        self.with(|h| {
            if h.keep_log {
                let step = h.step;
                h.log.push(ApiEvent { step, side, sid, what: what() });
            }
        })
    }
    pub fn dir<R>(&self, sid: u32, dir: usize, f: impl FnOnce(&mut DirRec) -> R) -> R {
        self.with(|h| f(&mut h.streams.entry(sid).or_default().dirs[dir]))
    }
    pub fn violation(&self, v: Violation) {
        self.with(|h| h.violations.push(v))
    }
    pub fn probe(&self, name: &'static str) {
        self.with(|h| *h.probes.entry(name).or_insert(0) += 1)
    }
    pub fn error(&self, side: u8, sid: u32, handle: &'static str, e: &h2::Error) {
        let facts = ErrFacts::of(e);
        self.with(|h| {
            let step = h.step;
            h.errors.push(ErrRec { side, sid, handle, facts, step });
        })
    }
    pub fn step(&self) -> u64 {
        self.with(|h| h.step)
    }
    /// body bytes obtained by receiving applications so far (both directions, all streams)
    pub fn app_bytes(&self) -> u64 {
        self.with(|h| h.streams.values().map(|s| s.dirs[0].r_body + s.dirs[1].r_body).sum())
    }
}
