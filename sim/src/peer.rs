//! Scripted HTTP/2 peer for topology T2: an independent implementation of just enough of
//! the protocol (own frame codec in `wire`, own HPACK in `hpackref`) to hold a legal
//! conversation with a real h2 endpoint and to misbehave on purpose.

use crate::exec::Gate;
use crate::hist::{fields_of_headermap, Fields, Hist};
use crate::hpackref::{EncChoice, RefDecoder, RefEncoder, Repr};
use crate::monitor::SettingsView;
use crate::net::SimIo;
use crate::tape::{Lane, Tape};
use crate::wire::*;
use std::collections::{BTreeMap, VecDeque};
use std::future::Future;
use std::pin::Pin;
use std::sync::{Arc, Mutex};
use std::task::{Context, Poll};
use tokio::io::{AsyncRead, AsyncWrite, ReadBuf};

#[derive(Debug, Clone, Copy, PartialEq, Eq)]
pub enum Grant {
    /// WINDOW_UPDATE for every DATA frame at once
    Immediate,
    /// when half of the initial window has been consumed
    Half,
    /// only when the scenario driver finds E quiescent (E must then be blocked on it)
    AtQuiescence,
    Never,
}

#[derive(Debug, Clone)]
pub struct Msg {
    /// wire-level header fields in order (pseudo fields included)
    pub fields: Vec<(Vec<u8>, Vec<u8>)>,
    pub choices: Vec<EncChoice>,
    /// cut offsets for HEADERS + CONTINUATION fragmentation
    pub cuts: Vec<usize>,
    pub pad: Option<u8>,
    pub prio: Option<(u32, bool, u8)>,
    /// a dynamic table size update to put at the start of the block
    pub size_update: Option<usize>,
    /// raw block override (already encoded, possibly invalid)
    pub raw_block: Option<Vec<u8>>,
    /// something appended that depends on the encoder's table state at send time
    pub tail: MsgTail,
}

#[derive(Debug, Clone, Copy, PartialEq, Eq)]
pub enum MsgTail {
    None,
    /// a literal with incremental indexing whose entry is larger than the whole table:
    /// legal, and empties the table (RFC 7541 section 4.4)
    OversizeInsert,
    /// an indexed field one past the last dynamic entry: a decoding error
    IndexBeyondTable,
}

impl Msg {
    pub fn simple(fields: Vec<(&str, &str)>) -> Msg {
        let f: Vec<(Vec<u8>, Vec<u8>)> = fields.into_iter().map(|(a, b)| (a.as_bytes().to_vec(), b.as_bytes().to_vec())).collect();
        let n = f.len();
        Msg { fields: f, choices: vec![EncChoice::plain(); n], cuts: vec![], pad: None, prio: None, size_update: None, raw_block: None, tail: MsgTail::None }
    }
}

#[derive(Debug, Clone)]
pub struct BodySpec {
    /// DATA frame payload sizes (before padding)
    pub frames: Vec<usize>,
    pub pad: Vec<Option<u8>>,
    pub end: PeerEnd,
    /// ignore E's flow-control windows (violation)
    pub ignore_windows: bool,
}

#[derive(Debug, Clone)]
pub enum PeerEnd {
    OnLastData,
    EmptyData,
    Trailers(Msg),
    /// leave the stream open
    None,
    Rst(u32),
}

#[derive(Debug, Clone)]
pub enum PeerOp {
    /// (peer as client) open a request stream
    Open { sid: u32, head: Msg, eos: bool, body: Option<BodySpec> },
    /// (peer as server) plan used for the n-th request received
    Frames(Vec<RawFrame>),
    Raw(Vec<u8>),
    Settings(Vec<(u16, u32)>),
    Ping([u8; 8]),
    WindowUpdate(u32, u32),
    Rst(u32, u32),
    GoAway(u32, u32, Vec<u8>),
    Pause(u32),
    /// wait until the driver finds the whole system quiescent
    Barrier,
    /// wait until every body queued so far has been sent
    Drain,
    /// grant everything owed (used with Grant::AtQuiescence)
    GrantAll,
    /// window exhaustion probe: send exactly as many bytes as the peer's current view of
    /// E's connection window allows, on fresh streams that stay open, using no later grant
    Probe { first_sid: u32 },
    StopReading,
    ResumeReading,
    Fin,
    /// mark: from here on E's reactions belong to the injected item
    Mark(&'static str),
}

#[derive(Debug, Clone)]
pub struct RespPlan {
    pub informational: Vec<Msg>,
    pub head: Msg,
    pub eos: bool,
    pub body: Option<BodySpec>,
    pub delay: u32,
    pub pushes: Vec<(Msg, Msg, Option<BodySpec>)>,
}

#[derive(Debug, Default, Clone)]
pub struct PStream {
    /// what the peer may still send on this stream (E's receive window)
    pub send_win: i64,
    pub opened_by_peer: bool,
    pub e_hdr: bool,
    pub e_end: bool,
    pub e_rst: Option<u32>,
    pub p_end: bool,
    pub p_rst: bool,
    pub recv_unacked: i64,
    pub recv_total: u64,
    pub blocks_from_e: Vec<Fields>,
}

pub struct Sender {
    pub sid: u32,
    pub spec: BodySpec,
    pub idx: usize,
    pub off: u64,
    pub done: bool,
    pub dir: usize,
}

#[derive(Debug, Default, Clone)]
pub struct PeerObs {
    pub goaway_from_e: Vec<(u32, u32, Vec<u8>)>,
    pub rst_from_e: Vec<(u32, u32)>,
    pub settings_acks_from_e: u64,
    pub ping_acks_from_e: Vec<Vec<u8>>,
    pub frames_from_e: u64,
    pub frames_from_e_after_mark: Vec<String>,
    pub eof_from_e: bool,
    pub read_err: bool,
    pub write_err: bool,
    pub requests_seen: u32,
    pub hpack_err_from_e: Option<String>,
    pub mark_at_frame: Option<u64>,
    pub bytes_written: u64,
    pub mark_at_byte: Option<u64>,
    pub barriers_passed: u32,
    pub finished_script: bool,
    pub window_blocked: bool,
    pub headers_from_e: u64,
    pub probe_total: u64,
    pub probe_streams: Vec<(u32, bool)>,
    /// copy of the peer's per-stream view (only kept when `Peer::snapshot_streams`)
    pub streams: BTreeMap<u32, PStream>,
}

pub struct Peer {
    pub is_server: bool,
    pub io: SimIo,
    pub hist: Hist,
    pub tape: Tape,
    pub rx: Vec<u8>,
    pub parser: FrameParser,
    pub out: VecDeque<u8>,
    pub script: VecDeque<PeerOp>,
    pub resp_plans: Vec<RespPlan>,
    pub senders: Vec<Sender>,
    pub streams: BTreeMap<u32, PStream>,
    pub conn_send_win: i64,
    pub conn_recv_unacked: i64,
    /// E's settings as received (applied immediately by the peer, acked at once)
    pub e_settings: SettingsView,
    pub my_iws: u32,
    pub dec: RefDecoder,
    pub enc: RefEncoder,
    pub grant: Grant,
    pub auto_ack_settings: bool,
    pub auto_ack_ping: bool,
    pub snapshot_streams: bool,
    pub last_oversize_len: usize,
    pub auto_respond: bool,
    pub pause: u32,
    pub barrier: Option<Gate>,
    pub barriers: Arc<Mutex<Option<Gate>>>,
    pub obs: Arc<Mutex<PeerObs>>,
    pub block_open: Option<(u32, Vec<RawFrame>)>,
    pub eof: bool,
    pub dead: bool,
    pub fin_sent: bool,
    pub sent_preface: bool,
    pub next_push_id: u32,
    pub pending_responses: VecDeque<(u32, RespPlan, u32)>,
    pub unacked_my_settings: u32,
    pub want_fin_when_done: bool,
    /// table sizes the peer advertised in SETTINGS that E has not acknowledged yet
    pub pending_my_tables: VecDeque<usize>,
    /// E lowered its SETTINGS_HEADER_TABLE_SIZE: the peer's next block starts with an update
    pub pending_enc_shrink: Option<usize>,
    pub enc_limit: usize,
    pub reading: bool,
}

pub fn fields_to_api_request(fields: &[(Vec<u8>, Vec<u8>)]) -> Fields {
    let get = |n: &str| fields.iter().find(|(k, _)| k == n.as_bytes()).map(|(_, v)| String::from_utf8_lossy(v).to_string());
    let mut out: Fields = Vec::new();
    out.push((":method".into(), get(":method").unwrap_or_default().into_bytes()));
    let uri = if get(":scheme").is_none() && get(":path").is_none() {
        // CONNECT: authority-form
        get(":authority").unwrap_or_default()
    } else {
        format!("{}://{}{}", get(":scheme").unwrap_or_default(), get(":authority").unwrap_or_default(), get(":path").unwrap_or_default())
    };
    out.push((":uri".into(), uri.into_bytes()));
    if let Some(p) = get(":protocol") {
        out.push((":protocol".into(), p.into_bytes()));
    }
    for (k, v) in fields {
        if !k.starts_with(b":") {
            out.push((String::from_utf8_lossy(k).to_string(), v.clone()));
        }
    }
    out
}

pub fn fields_to_api_response(fields: &[(Vec<u8>, Vec<u8>)]) -> Fields {
    let mut out: Fields = Vec::new();
    for (k, v) in fields {
        if k == b":status" {
            out.push((":status".into(), v.clone()));
        }
    }
    for (k, v) in fields {
        if !k.starts_with(b":") {
            out.push((String::from_utf8_lossy(k).to_string(), v.clone()));
        }
    }
    out
}

pub fn fields_plain(fields: &[(Vec<u8>, Vec<u8>)]) -> Fields {
    fields.iter().map(|(k, v)| (String::from_utf8_lossy(k).to_string(), v.clone())).collect()
}

impl Peer {
    pub fn new(is_server: bool, io: SimIo, hist: Hist, tape: Tape, my_settings: Vec<(u16, u32)>, grant: Grant) -> Peer {
        let mut my_iws = 65_535;
        let mut my_table = 4096usize;
        for (k, v) in &my_settings {
            if *k == S_INITIAL_WINDOW_SIZE {
                my_iws = *v;
            }
            if *k == S_HEADER_TABLE_SIZE {
                my_table = *v as usize;
            }
        }
        let mut p = Peer {
            is_server,
            io,
            hist,
            tape,
            rx: Vec::new(),
            // E is a client exactly when the peer is a server: then E's bytes start with the preface
            parser: FrameParser::new(is_server),
            out: VecDeque::new(),
            script: VecDeque::new(),
            resp_plans: Vec::new(),
            senders: Vec::new(),
            streams: BTreeMap::new(),
            conn_send_win: 65_535,
            conn_recv_unacked: 0,
            e_settings: SettingsView::default(),
            my_iws,
            dec: RefDecoder::new(4096),
            enc: RefEncoder::new(4096),
            grant,
            auto_ack_settings: true,
            auto_ack_ping: true,
            snapshot_streams: false,
            last_oversize_len: 0,
            auto_respond: true,
            pause: 0,
            barrier: None,
            barriers: Arc::new(Mutex::new(None)),
            obs: Arc::new(Mutex::new(PeerObs::default())),
            block_open: None,
            eof: false,
            dead: false,
            fin_sent: false,
            sent_preface: false,
            next_push_id: 2,
            pending_responses: VecDeque::new(),
            unacked_my_settings: 0,
            want_fin_when_done: false,
            pending_my_tables: VecDeque::new(),
            pending_enc_shrink: None,
            enc_limit: 4096,
            reading: true,
        };
        // the decoder for E's blocks is limited by the table size the peer advertises; E
        // applies it when it acknowledges, and may only then grow beyond 4096
        let _ = my_table;
        if !is_server {
            p.out.extend(PREFACE);
        }
        p.send_frame(&settings_frame(&my_settings));
        p.unacked_my_settings = 1;
        p.pending_my_tables.push_back(my_table);
        p
    }

    pub fn send_frame(&mut self, f: &RawFrame) {
        self.out.extend(f.encode());
    }

    fn encode_block(&mut self, m: &Msg) -> Vec<u8> {
        if let Some(r) = &m.raw_block {
            return r.clone();
        }
        let mut b = Vec::new();
        if let Some(v) = self.pending_enc_shrink.take() {
            self.enc.size_update(&mut b, v);
        }
        if let Some(sz) = m.size_update {
            self.enc.size_update(&mut b, sz);
        }
        for (i, (n, v)) in m.fields.iter().enumerate() {
            let c = m.choices.get(i).copied().unwrap_or_else(EncChoice::plain);
            self.enc.field(&mut b, n, v, c);
        }
        match m.tail {
            MsgTail::None => {}
            MsgTail::OversizeInsert => {
                let max = self.enc.table.max_size;
                let value = vec![b'v'; max.min(12_000)];
                self.last_oversize_len = value.len();
                let c = EncChoice { use_indexed: false, use_name_index: false, repr: Repr::LitIncr, huff_name: false, huff_value: false, nonminimal: 0 };
                self.enc.field(&mut b, b"x-oversize", &value, c);
            }
            MsgTail::IndexBeyondTable => {
                let idx = 62 + self.enc.table.entries.len();
                crate::hpackref::enc_int(&mut b, 0x80, 7, idx as u64, 0);
            }
        }
        b
    }

    pub fn send_headers(&mut self, sid: u32, m: &Msg, eos: bool) {
        let block = self.encode_block(m);
        for f in headers_frames(sid, &block, eos, &m.cuts, m.pad, m.prio) {
            self.send_frame(&f);
        }
    }

    pub fn send_push_promise(&mut self, parent: u32, promised: u32, m: &Msg) {
        let block = self.encode_block(m);
        for f in push_promise_frames(parent, promised, &block, &m.cuts, m.pad) {
            self.send_frame(&f);
        }
    }

    // ------------------------------------------------------------------ receiving from E

    fn on_frame(&mut self, f: RawFrame) {
        {
            let mut o = self.obs.lock().unwrap();
            o.frames_from_e += 1;
            if o.mark_at_frame.is_some() {
                o.frames_from_e_after_mark.push(f.describe());
            }
        }
        if let Some((sid, mut frs)) = self.block_open.take() {
            if f.ty == CONTINUATION && f.sid == sid {
                let end = f.end_headers();
                frs.push(f);
                if end {
                    self.on_header_block(frs);
                } else {
                    self.block_open = Some((sid, frs));
                }
            }
            return;
        }
        match f.ty {
            SETTINGS => {
                if f.is_ack() {
                    self.obs.lock().unwrap().settings_acks_from_e += 1;
                    self.unacked_my_settings = self.unacked_my_settings.saturating_sub(1);
                    if let Some(t) = self.pending_my_tables.pop_front() {
                        // E has acknowledged: its encoder may now use up to this table size
                        self.dec.set_settings_limit(t);
                    }
                } else {
                    let items = f.settings();
                    let old_iws = self.e_settings.iws as i64;
                    self.e_settings.apply(&items);
                    let delta = self.e_settings.iws as i64 - old_iws;
                    if delta != 0 {
                        for s in self.streams.values_mut() {
                            s.send_win += delta;
                        }
                    }
                    for (k, v) in &items {
                        if *k == S_HEADER_TABLE_SIZE {
                            // E's decoder limit for the peer's encoder
                            let v = (*v as usize).min(65_536);
                            if v < self.enc.table.max_size {
                                self.pending_enc_shrink = Some(match self.pending_enc_shrink {
                                    Some(x) => x.min(v),
                                    None => v,
                                });
                            }
                            self.enc_limit = v;
                        }
                    }
                    if self.auto_ack_settings {
                        self.send_frame(&settings_ack());
                    }
                }
            }
            PING => {
                if f.is_ack() {
                    self.obs.lock().unwrap().ping_acks_from_e.push(f.payload.clone());
                } else if self.auto_ack_ping && f.payload.len() == 8 {
                    let mut p = [0u8; 8];
                    p.copy_from_slice(&f.payload);
                    self.send_frame(&ping(p, true));
                }
            }
            WINDOW_UPDATE => {
                if let Some(inc) = f.u32_at(0) {
                    let inc = (inc & 0x7fff_ffff) as i64;
                    if f.sid == 0 {
                        self.conn_send_win += inc;
                    } else if let Some(s) = self.streams.get_mut(&f.sid) {
                        s.send_win += inc;
                    }
                }
            }
            GOAWAY => {
                if let (Some(l), Some(c)) = (f.u32_at(0), f.u32_at(4)) {
                    self.obs.lock().unwrap().goaway_from_e.push((l & 0x7fff_ffff, c, f.payload[8..].to_vec()));
                }
            }
            RST_STREAM => {
                if let Some(c) = f.u32_at(0) {
                    self.obs.lock().unwrap().rst_from_e.push((f.sid, c));
                    let s = self.streams.entry(f.sid).or_default();
                    s.e_rst = Some(c);
                    for snd in self.senders.iter_mut().filter(|x| x.sid == f.sid) {
                        snd.done = true;
                    }
                }
            }
            HEADERS | PUSH_PROMISE => {
                if f.end_headers() {
                    self.on_header_block(vec![f]);
                } else {
                    self.block_open = Some((f.sid, vec![f]));
                }
            }
            DATA => {
                let len = f.payload.len() as i64;
                self.conn_recv_unacked += len;
                let iws = self.my_iws as i64;
                let grant = self.grant;
                let s = self.streams.entry(f.sid).or_default();
                s.recv_unacked += len;
                s.recv_total += len as u64;
                if f.end_stream() {
                    s.e_end = true;
                }
                let ended = s.e_end || s.e_rst.is_some();
                match grant {
                    Grant::Immediate => self.grant_now(f.sid, !ended),
                    Grant::Half => {
                        let su = self.streams[&f.sid].recv_unacked;
                        if su * 2 >= iws.max(1) || self.conn_recv_unacked >= 32_767 {
                            self.grant_now(f.sid, !ended);
                        }
                    }
                    _ => {}
                }
            }
            _ => {}
        }
    }

    pub fn grant_now(&mut self, sid: u32, stream_too: bool) {
        if self.conn_recv_unacked > 0 {
            let inc = self.conn_recv_unacked as u32;
            self.conn_recv_unacked = 0;
            self.send_frame(&window_update(0, inc));
        }
        if stream_too {
            if let Some(s) = self.streams.get_mut(&sid) {
                if s.recv_unacked > 0 {
                    let inc = s.recv_unacked as u32;
                    s.recv_unacked = 0;
                    self.send_frame(&window_update(sid, inc));
                }
            }
        }
    }

    pub fn grant_all(&mut self) {
        let ids: Vec<u32> = self.streams.iter().filter(|(_, s)| s.recv_unacked > 0 && !s.e_end && s.e_rst.is_none()).map(|(k, _)| *k).collect();
        for id in ids {
            self.grant_now(id, true);
        }
        if self.conn_recv_unacked > 0 {
            let inc = self.conn_recv_unacked as u32;
            self.conn_recv_unacked = 0;
            self.send_frame(&window_update(0, inc));
        }
    }

    fn on_header_block(&mut self, frs: Vec<RawFrame>) {
        let first = frs[0].clone();
        let mut block = Vec::new();
        for f in &frs {
            if let Some(fr) = f.fragment() {
                block.extend_from_slice(fr);
            }
        }
        self.obs.lock().unwrap().headers_from_e += 1;
        let fields: Option<Fields> = match self.dec.decode_block(&block, false) {
            Ok(d) => Some(d.into_iter().map(|x| (String::from_utf8_lossy(&x.name).to_string(), x.value)).collect()),
            Err(e) => {
                let mut o = self.obs.lock().unwrap();
                if o.hpack_err_from_e.is_none() {
                    o.hpack_err_from_e = Some(format!("{:?}", e));
                }
                None
            }
        };
        if first.ty == PUSH_PROMISE {
            return;
        }
        let sid = first.sid;
        let e_iws = self.e_settings.iws as i64;
        let is_new = !self.streams.contains_key(&sid);
        let s = self.streams.entry(sid).or_default();
        if is_new {
            s.send_win = e_iws;
        }
        let first_block = !s.e_hdr;
        s.e_hdr = true;
        if first.end_stream() {
            s.e_end = true;
        }
        if let Some(fl) = &fields {
            s.blocks_from_e.push(fl.clone());
        }
        if self.is_server && first_block && is_new && sid % 2 == 1 {
            // a request from E: answer it according to the next response plan
            let n = {
                let mut o = self.obs.lock().unwrap();
                o.requests_seen += 1;
                o.requests_seen as usize - 1
            };
            if self.auto_respond && !self.resp_plans.is_empty() {
                let plan = self.resp_plans[n % self.resp_plans.len()].clone();
                let d = plan.delay;
                if std::env::var_os("H2SIM_DEBUG_PEER").is_some() {
                    eprintln!("[peer] request #{} on stream {} -> plan delay {}", n, sid, d);
                }
                self.pending_responses.push_back((sid, plan, d));
            }
        }
    }

    // ------------------------------------------------------------------ sending to E

    fn start_body(&mut self, sid: u32, spec: BodySpec, dir: usize) {
        self.senders.push(Sender { sid, spec, idx: 0, off: 0, done: false, dir });
    }

    /// Returns true if something was emitted.
    fn pump_senders(&mut self) -> bool {
        let mut progressed = false;
        let mut blocked = false;
        for i in 0..self.senders.len() {
            loop {
                if self.senders[i].done {
                    break;
                }
                let sid = self.senders[i].sid;
                let idx = self.senders[i].idx;
                let n = self.senders[i].spec.frames.len();
                if idx >= n {
                    // end of the DATA sequence
                    let end = self.senders[i].spec.end.clone();
                    let dir = self.senders[i].dir;
                    match end {
                        PeerEnd::OnLastData | PeerEnd::None => {}
                        PeerEnd::EmptyData => {
                            self.send_frame(&data(sid, &[], true, None));
                            self.hist.dir(sid, dir, |d| d.s_end = true);
                        }
                        PeerEnd::Trailers(m) => {
                            self.send_headers(sid, &m, true);
                            let f = fields_plain(&m.fields);
                            self.hist.dir(sid, dir, |d| {
                                d.s_trailers = Some(f);
                                d.s_end = true;
                            });
                        }
                        PeerEnd::Rst(code) => {
                            self.send_frame(&rst_stream(sid, code));
                            self.hist.dir(sid, dir, |d| d.s_abort = Some(format!("peer reset({})", code)));
                            if let Some(s) = self.streams.get_mut(&sid) {
                                s.p_rst = true;
                            }
                        }
                    }
                    if let Some(s) = self.streams.get_mut(&sid) {
                        if !matches!(self.senders[i].spec.end, PeerEnd::None | PeerEnd::Rst(_)) {
                            s.p_end = true;
                        }
                    }
                    self.senders[i].done = true;
                    progressed = true;
                    break;
                }
                let len = self.senders[i].spec.frames[idx];
                let mut pad = self.senders[i].spec.pad.get(idx).copied().flatten();
                if let Some(pl) = pad {
                    if len + pl as usize + 1 > self.e_settings.mfs as usize {
                        pad = None;
                    }
                }
                let fc = len as i64 + pad.map(|p| p as i64 + 1).unwrap_or(0);
                let ignore = self.senders[i].spec.ignore_windows;
                let swin = self.streams.get(&sid).map(|s| s.send_win).unwrap_or(0);
                if !ignore && fc > 0 && (fc > swin || fc > self.conn_send_win) {
                    if pad.is_some() {
                        // padding is optional: never let it be the reason for blocking
                        let sp = &mut self.senders[i].spec;
                        if sp.pad.len() > idx {
                            sp.pad[idx] = None;
                        }
                        continue;
                    }
                    if len > 1 && swin > 0 && self.conn_send_win > 0 {
                        // send what fits now
                        let first = (swin.min(self.conn_send_win) as usize).min(len);
                        let sp = &mut self.senders[i].spec;
                        sp.frames[idx] = first;
                        sp.frames.insert(idx + 1, len - first);
                        if sp.pad.len() > idx {
                            sp.pad.insert(idx + 1, None);
                        }
                        continue;
                    }
                    blocked = true;
                    break;
                }
                if !ignore && len > self.e_settings.mfs as usize {
                    // split to E's max frame size
                    let first = self.e_settings.mfs as usize;
                    let sp = &mut self.senders[i].spec;
                    sp.frames[idx] = first;
                    sp.frames.insert(idx + 1, len - first);
                    if sp.pad.len() > idx {
                        sp.pad.insert(idx + 1, None);
                    }
                    continue;
                }
                let last = idx + 1 == n;
                let eos = last && matches!(self.senders[i].spec.end, PeerEnd::OnLastData);
                let off = self.senders[i].off;
                let dir = self.senders[i].dir;
                let body = crate::hist::fill(dir as u8, sid, off, len);
                self.send_frame(&data(sid, &body, eos, pad));
                self.hist.dir(sid, dir, |d| {
                    d.s_body += len as u64;
                    if eos {
                        d.s_end = true;
                    }
                });
                self.conn_send_win -= fc;
                if let Some(s) = self.streams.get_mut(&sid) {
                    s.send_win -= fc;
                    if eos {
                        s.p_end = true;
                    }
                }
                self.senders[i].off += len as u64;
                self.senders[i].idx += 1;
                progressed = true;
            }
        }
        self.obs.lock().unwrap().window_blocked = blocked;
        progressed
    }

    fn pump_responses(&mut self) -> bool {
        let mut progressed = false;
        let mut i = 0;
        while i < self.pending_responses.len() {
            if self.pending_responses[i].2 > 0 {
                if self.pending_responses[i].2 < 1_000_000 {
                    self.pending_responses[i].2 -= 1;
                }
                i += 1;
                continue;
            }
            let (sid, plan, _) = self.pending_responses.remove(i).unwrap();
            if std::env::var_os("H2SIM_DEBUG_PEER").is_some() {
                eprintln!("[peer] responding on stream {} (info {}, pushes {}, eos {})", sid, plan.informational.len(), plan.pushes.len(), plan.eos);
            }
            if self.streams.get(&sid).map(|s| s.e_rst.is_some()).unwrap_or(false) {
                continue;
            }
            for m in &plan.informational {
                self.send_headers(sid, m, false);
                let f = fields_to_api_response(&m.fields);
                self.hist.dir(sid, 1, |d| d.s_info.push(f));
            }
            for (req, resp, body) in &plan.pushes {
                let pid = self.next_push_id;
                self.next_push_id += 2;
                self.send_push_promise(sid, pid, req);
                let f = fields_to_api_request(&req.fields);
                self.hist.dir(sid, 1, |d| d.s_push.push((pid, f)));
                let e_iws = self.e_settings.iws as i64;
                let s = self.streams.entry(pid).or_default();
                s.send_win = e_iws;
                s.opened_by_peer = true;
                let eos = body.is_none();
                self.send_headers(pid, resp, eos);
                let f = fields_to_api_response(&resp.fields);
                self.hist.dir(pid, 1, |d| {
                    d.s_head = Some(f);
                    if eos {
                        d.s_end = true;
                    }
                });
                if let Some(b) = body {
                    self.start_body(pid, b.clone(), 1);
                }
            }
            self.send_headers(sid, &plan.head, plan.eos);
            if plan.head.raw_block.is_none() {
                let f = fields_to_api_response(&plan.head.fields);
                self.hist.dir(sid, 1, |d| {
                    d.s_head = Some(f);
                    if plan.eos {
                        d.s_end = true;
                    }
                });
            }
            if let Some(s) = self.streams.get_mut(&sid) {
                if plan.eos {
                    s.p_end = true;
                }
            }
            if !plan.eos {
                if let Some(b) = &plan.body {
                    self.start_body(sid, b.clone(), 1);
                }
            }
            progressed = true;
        }
        progressed
    }

    /// Execute script operations until one blocks. Returns true on progress.
    fn run_script(&mut self) -> bool {
        let mut progressed = false;
        loop {
            if self.pause > 0 {
                return progressed;
            }
            if let Some(g) = &self.barrier {
                if g.is_open() {
                    self.barrier = None;
                    self.obs.lock().unwrap().barriers_passed += 1;
                } else {
                    return progressed;
                }
            }
            let op = match self.script.front() {
                Some(o) => o.clone(),
                None => {
                    self.obs.lock().unwrap().finished_script = true;
                    return progressed;
                }
            };
            match op {
                PeerOp::Drain => {
                    if self.senders.iter().any(|s| !s.done) || !self.pending_responses.is_empty() {
                        return progressed;
                    }
                }
                _ => {}
            }
            self.script.pop_front();
            progressed = true;
            match op {
                PeerOp::Open { sid, head, eos, body } => {
                    let e_iws = self.e_settings.iws as i64;
                    let s = self.streams.entry(sid).or_default();
                    s.send_win = e_iws;
                    s.opened_by_peer = true;
                    // the oversize tail field is part of the submitted message
                    self.send_headers(sid, &head, eos);
                    let oversize_len = self.last_oversize_len;
                    if head.raw_block.is_none() && head.tail != MsgTail::IndexBeyondTable {
                        let mut all = head.fields.clone();
                        if head.tail == MsgTail::OversizeInsert {
                            all.push((b"x-oversize".to_vec(), vec![b'v'; oversize_len]));
                        }
                        let f = fields_to_api_request(&all);
                        self.hist.dir(sid, 0, |d| {
                            d.s_head = Some(f);
                            if eos {
                                d.s_end = true;
                            }
                        });
                    }
                    if let Some(b) = body {
                        if !eos {
                            self.start_body(sid, b, 0);
                        }
                    }
                }
                PeerOp::Frames(fs) => {
                    for f in fs {
                        self.send_frame(&f);
                    }
                }
                PeerOp::Raw(b) => self.out.extend(b),
                PeerOp::Settings(items) => {
                    self.send_frame(&settings_frame(&items));
                    self.unacked_my_settings += 1;
                    let mut t = None;
                    for (k, v) in &items {
                        if *k == S_HEADER_TABLE_SIZE {
                            t = Some(*v as usize);
                        }
                        if *k == S_INITIAL_WINDOW_SIZE {
                            self.my_iws = *v;
                        }
                    }
                    if let Some(t) = t {
                        self.pending_my_tables.push_back(t);
                    } else {
                        let cur = self.dec.settings_limit;
                        self.pending_my_tables.push_back(self.pending_my_tables.back().copied().unwrap_or(cur));
                    }
                }
                PeerOp::Ping(p) => self.send_frame(&ping(p, false)),
                PeerOp::WindowUpdate(sid, inc) => self.send_frame(&window_update(sid, inc)),
                PeerOp::Rst(sid, code) => {
                    self.send_frame(&rst_stream(sid, code));
                    if let Some(s) = self.streams.get_mut(&sid) {
                        s.p_rst = true;
                    }
                    for snd in self.senders.iter_mut().filter(|x| x.sid == sid) {
                        snd.done = true;
                    }
                }
                PeerOp::GoAway(l, c, d) => self.send_frame(&goaway(l, c, &d)),
                PeerOp::Pause(n) => self.pause = n,
                PeerOp::Barrier => {
                    let g = Gate::new();
                    *self.barriers.lock().unwrap() = Some(g.clone());
                    self.barrier = Some(g);
                }
                PeerOp::Drain => {}
                PeerOp::GrantAll => self.grant_all(),
                PeerOp::StopReading => self.reading = false,
                PeerOp::ResumeReading => self.reading = true,
                PeerOp::Probe { first_sid } => {
                    let mut left = self.conn_send_win.max(0) as usize;
                    let per_stream = (self.e_settings.iws as usize).max(1);
                    let mfs = (self.e_settings.mfs as usize).min(16_384);
                    let mut sid = first_sid;
                    let mut n = 0;
                    {
                        let mut o = self.obs.lock().unwrap();
                        o.probe_total = left as u64;
                    }
                    while left > 0 && n < 64 {
                        let head = Msg::simple(vec![(":method", "POST"), (":scheme", "https"), (":authority", "sim.test"), (":path", "/probe")]);
                        let mut head = head;
                        for c in head.choices.iter_mut() {
                            c.repr = Repr::LitNoIndex;
                        }
                        self.send_headers(sid, &head, false);
                        let f = fields_to_api_request(&head.fields);
                        self.hist.dir(sid, 0, |d| d.s_head = Some(f));
                        let mut amount = left.min(per_stream);
                        left -= amount;
                        let full = amount == per_stream;
                        let mut off = 0u64;
                        while amount > 0 {
                            let l = amount.min(mfs);
                            let body = crate::hist::fill(0, sid, off, l);
                            self.send_frame(&data(sid, &body, false, None));
                            self.hist.dir(sid, 0, |d| d.s_body += l as u64);
                            off += l as u64;
                            amount -= l;
                            self.conn_send_win -= l as i64;
                        }
                        let s = self.streams.entry(sid).or_default();
                        s.opened_by_peer = true;
                        s.send_win = per_stream as i64 - off as i64;
                        self.obs.lock().unwrap().probe_streams.push((sid, full));
                        sid += 2;
                        n += 1;
                    }
                }
                PeerOp::Fin => self.want_fin_when_done = true,
                PeerOp::Mark(_) => {
                    let mut o = self.obs.lock().unwrap();
                    o.mark_at_frame = Some(o.frames_from_e);
                    o.mark_at_byte = Some(o.bytes_written + self.out.len() as u64);
                }
            }
        }
    }
}

// fields added late (kept together for readability)
impl Peer {
    #[allow(dead_code)]
    fn _doc(&self) {}
}

pub struct PeerFuture(pub Peer);

impl Future for PeerFuture {
    type Output = ();
    fn poll(mut self: Pin<&mut Self>, cx: &mut Context<'_>) -> Poll<()> {
        let p = &mut self.0;
        let mut spins = 0;
        loop {
            spins += 1;
            let mut progressed = false;
            // ---- read
            if !p.eof && p.reading {
                let mut buf = [0u8; 16_384];
                loop {
                    let mut rb = ReadBuf::new(&mut buf);
                    match Pin::new(&mut p.io).poll_read(cx, &mut rb) {
                        Poll::Ready(Ok(())) => {
                            let n = rb.filled().len();
                            if n == 0 {
                                p.eof = true;
                                p.obs.lock().unwrap().eof_from_e = true;
                                break;
                            }
                            p.rx.extend_from_slice(rb.filled());
                            progressed = true;
                        }
                        Poll::Ready(Err(_)) => {
                            p.eof = true;
                            p.obs.lock().unwrap().read_err = true;
                            break;
                        }
                        Poll::Pending => break,
                    }
                }
            }
            loop {
                let f = {
                    let rx = std::mem::take(&mut p.rx);
                    let f = p.parser.next(&rx);
                    p.rx = rx;
                    f
                };
                match f {
                    Some(f) => {
                        p.on_frame(f);
                        progressed = true;
                    }
                    None => break,
                }
            }
            // ---- act
            if p.pause > 0 {
                p.pause -= 1;
                cx.waker().wake_by_ref();
            }
            progressed |= p.run_script();
            if let Some(g) = &p.barrier {
                g.register(cx.waker());
            }
            progressed |= p.pump_responses();
            if p.pending_responses.iter().any(|r| r.2 < 1_000_000) {
                cx.waker().wake_by_ref();
            }
            progressed |= p.pump_senders();
            // ---- write
            while !p.out.is_empty() && !p.dead {
                let (a, _) = p.out.as_slices();
                let n = a.len().min(65_536);
                let chunk: Vec<u8> = a[..n].to_vec();
                match Pin::new(&mut p.io).poll_write(cx, &chunk) {
                    Poll::Ready(Ok(0)) => {
                        p.dead = true;
                    }
                    Poll::Ready(Ok(k)) => {
                        p.out.drain(..k);
                        p.obs.lock().unwrap().bytes_written += k as u64;
                        progressed = true;
                    }
                    Poll::Ready(Err(_)) => {
                        p.dead = true;
                        p.obs.lock().unwrap().write_err = true;
                    }
                    Poll::Pending => break,
                }
            }
            if p.dead {
                p.out.clear();
            }
            let script_done = p.script.is_empty() && p.barrier.is_none() && p.pause == 0;
            if script_done && p.want_fin_when_done && !p.fin_sent && p.out.is_empty() && p.senders.iter().all(|s| s.done) && p.pending_responses.is_empty() {
                if let Poll::Ready(_) = Pin::new(&mut p.io).poll_shutdown(cx) {
                    p.fin_sent = true;
                    progressed = true;
                }
            }
            // the peer lives until E closes the transport (or the peer itself is done and E is gone)
            if p.eof && (p.out.is_empty() || p.dead) && script_done {
                if p.snapshot_streams {
                    p.obs.lock().unwrap().streams = p.streams.clone();
                }
                return Poll::Ready(());
            }
            if !progressed || spins > 64 {
                if p.snapshot_streams {
                    p.obs.lock().unwrap().streams = p.streams.clone();
                }
                if progressed {
                    cx.waker().wake_by_ref();
                }
                return Poll::Pending;
            }
        }
    }
}

// ------------------------------------------------------------------------------------
// message generators

pub fn gen_choice(t: &Tape, exotic: bool) -> EncChoice {
    if !exotic {
        return EncChoice { use_indexed: true, use_name_index: true, repr: Repr::LitIncr, huff_name: t.chance(Lane::Peer, 1, 2), huff_value: t.chance(Lane::Peer, 1, 2), nonminimal: 0 };
    }
    EncChoice {
        use_indexed: !t.chance(Lane::Peer, 1, 4),
        use_name_index: !t.chance(Lane::Peer, 1, 4),
        repr: *t.pick(Lane::Peer, &[Repr::LitIncr, Repr::LitNoIndex, Repr::LitNever, Repr::LitIncr]),
        huff_name: t.chance(Lane::Peer, 1, 2),
        huff_value: t.chance(Lane::Peer, 1, 2),
        nonminimal: *t.pick(Lane::Peer, &[0u8, 0, 0, 1, 2]),
    }
}

pub fn gen_cuts(t: &Tape, approx_len: usize) -> Vec<usize> {
    let n = *t.pick(Lane::Peer, &[0usize, 0, 1, 2, 5]);
    (0..n).map(|_| t.draw(Lane::Peer, approx_len as u32 + 2) as usize).collect()
}

pub fn request_msg(t: &Tape, path: &str, method: &str, extra: &Fields, exotic: bool) -> Msg {
    let mut fields: Vec<(Vec<u8>, Vec<u8>)> = vec![
        (b":method".to_vec(), method.as_bytes().to_vec()),
        (b":scheme".to_vec(), b"https".to_vec()),
        (b":authority".to_vec(), b"sim.test".to_vec()),
        (b":path".to_vec(), path.as_bytes().to_vec()),
    ];
    for (n, v) in extra {
        fields.push((n.as_bytes().to_vec(), v.clone()));
    }
    let approx: usize = fields.iter().map(|(a, b)| a.len() + b.len() + 2).sum();
    let n = fields.len();
    Msg {
        fields,
        choices: (0..n).map(|_| gen_choice(t, exotic)).collect(),
        cuts: gen_cuts(t, approx),
        pad: if t.chance(Lane::Peer, 1, 4) { Some(t.draw(Lane::Peer, 256) as u8) } else { None },
        // dependencies on even ids: never the (odd) stream itself, which would be a violation
        prio: if t.chance(Lane::Peer, 1, 5) { Some((2 * t.draw(Lane::Peer, 10), t.chance(Lane::Peer, 1, 2), t.draw(Lane::Peer, 256) as u8)) } else { None },
        size_update: None,
        raw_block: None,
        tail: MsgTail::None,
    }
}

pub fn response_msg(t: &Tape, status: u16, extra: &Fields, exotic: bool) -> Msg {
    let mut fields: Vec<(Vec<u8>, Vec<u8>)> = vec![(b":status".to_vec(), status.to_string().into_bytes())];
    for (n, v) in extra {
        fields.push((n.as_bytes().to_vec(), v.clone()));
    }
    let approx: usize = fields.iter().map(|(a, b)| a.len() + b.len() + 2).sum();
    let n = fields.len();
    Msg {
        fields,
        choices: (0..n).map(|_| gen_choice(t, exotic)).collect(),
        cuts: gen_cuts(t, approx),
        pad: if t.chance(Lane::Peer, 1, 4) { Some(t.draw(Lane::Peer, 256) as u8) } else { None },
        prio: None,
        size_update: None,
        raw_block: None,
        tail: MsgTail::None,
    }
}

pub fn trailers_msg(t: &Tape, extra: &Fields, exotic: bool) -> Msg {
    let fields: Vec<(Vec<u8>, Vec<u8>)> = extra.iter().map(|(n, v)| (n.as_bytes().to_vec(), v.clone())).collect();
    let approx: usize = fields.iter().map(|(a, b)| a.len() + b.len() + 2).sum();
    let n = fields.len();
    Msg { fields, choices: (0..n).map(|_| gen_choice(t, exotic)).collect(), cuts: gen_cuts(t, approx), pad: None, prio: None, size_update: None, raw_block: None, tail: MsgTail::None }
}

pub fn gen_bodyspec(t: &Tape, max_total: usize, padding: bool, window_hint: usize) -> BodySpec {
    let n = t.draw(Lane::Peer, 6) as usize;
    let mut frames = Vec::new();
    let mut pad = Vec::new();
    let mut left = max_total;
    for _ in 0..n {
        let class = t.draw(Lane::Peer, 7);
        let mut len = match class {
            0 => t.range(Lane::Peer, 1, 100) as usize,
            1 => 0,
            2 => 1,
            3 => window_hint.saturating_sub(1),
            4 => window_hint,
            5 => t.range(Lane::Peer, 100, 16_384) as usize,
            _ => 16_384,
        };
        len = len.min(left).min(16_384);
        left -= len;
        frames.push(len);
        pad.push(if padding && t.chance(Lane::Peer, 1, 3) { Some(t.draw(Lane::Peer, 256) as u8) } else { None });
    }
    let end = match t.draw(Lane::Peer, 4) {
        0 => PeerEnd::OnLastData,
        1 => PeerEnd::EmptyData,
        2 => PeerEnd::Trailers(trailers_msg(t, &crate::cfg::gen_headers(t, 3, 500), false)),
        _ => PeerEnd::OnLastData,
    };
    let end = if frames.is_empty() && matches!(end, PeerEnd::OnLastData) { PeerEnd::EmptyData } else { end };
    BodySpec { frames, pad, end, ignore_windows: false }
}

#[allow(dead_code)]
pub fn headermap_fields(h: &http::HeaderMap) -> Fields {
    fields_of_headermap(h)
}
