//! Simulated transport: two directions, each `writer -> inflight -> rbuf -> reader`.
//! The link between `inflight` and `rbuf` is a schedulable entity of the executor, so
//! "delay" is simply "the link runs later"; FIFO byte order is always preserved and a
//! healthy link never drops, duplicates or corrupts bytes.

use crate::tape::{Lane, Tape};
use std::collections::VecDeque;
use std::io;
use std::pin::Pin;
use std::sync::{Arc, Mutex};
use std::task::{Context, Poll, Waker};
use tokio::io::{AsyncRead, AsyncWrite, ReadBuf};

pub const FAULT_KINDS: &[&str] = &[
    "frag_read",
    "frag_write",
    "pending_read",
    "pending_write",
    "pending_flush",
    "pending_shutdown",
    "backpressure",
    "delay",
    "stall",
    "heal",
    "clock_jump",
    "write_zero",
    "io_error_read",
    "io_error_write",
    "io_error_flush",
    "io_error_shutdown",
    "eof_clean",
    "eof_half",
    "drop_connection",
    "drop_handles",
    "spurious_wake",
    "peer_violation",
    "peer_unusual",
    "peer_corrupt",
    "vectored_write",
    "inject_op",
    "thread_switch",
];

#[derive(Debug, Clone, Default)]
pub struct FaultCounters(pub std::collections::BTreeMap<&'static str, u64>);

impl FaultCounters {
    pub fn hit(&mut self, k: &'static str) {
        *self.0.entry(k).or_insert(0) += 1;
    }
    pub fn add(&mut self, k: &'static str, n: u64) {
        if n > 0 {
            *self.0.entry(k).or_insert(0) += n;
        }
    }
    pub fn merge(&mut self, o: &FaultCounters) {
        for (k, v) in &o.0 {
            *self.0.entry(k).or_insert(0) += v;
        }
    }
    pub fn get(&self, k: &str) -> u64 {
        self.0.get(k).copied().unwrap_or(0)
    }
}

/// Per-endpoint transport behaviour knobs (percentages 0..=100).
#[derive(Debug, Clone)]
pub struct IoCfg {
    pub frag_read: u32,
    pub frag_write: u32,
    pub pend_read: u32,
    pub pend_write: u32,
    pub pend_flush: u32,
    pub pend_shutdown: u32,
    pub vectored: bool,
    /// the writer answers Pending (waking itself) on every other `poll_write` call: the
    /// first attempt of a task poll fails and an immediate retry succeeds, as happens when a
    /// socket becomes writable between two attempts
    pub pend_write_alt: bool,
}

impl IoCfg {
    pub fn benign() -> IoCfg {
        IoCfg {
            frag_read: 0,
            frag_write: 0,
            pend_read: 0,
            pend_write: 0,
            pend_flush: 0,
            pend_shutdown: 0,
            vectored: false,
            pend_write_alt: false,
        }
    }
}

#[derive(Debug, Clone, Copy, PartialEq, Eq)]
pub enum IoFault {
    /// the reader of this side gets an error once it has read `at` bytes
    ReadError { at: u64, kind: io::ErrorKind },
    /// the writer of this side gets an error once it has written `at` bytes
    WriteError { at: u64, kind: io::ErrorKind },
    /// `poll_write` returns Ok(0) once `at` bytes have been written
    WriteZero { at: u64 },
    /// the n-th `poll_flush` call (0-based) fails
    FlushError { call: u64, kind: io::ErrorKind },
    /// `poll_shutdown` fails
    ShutdownError { kind: io::ErrorKind },
    /// the reader of this side sees a clean EOF after `at` bytes; the rest is discarded
    ReadEof { at: u64 },
}

#[derive(Default)]
pub struct Dir {
    pub inflight: VecDeque<u8>,
    pub inflight_cap: usize,
    pub rbuf: VecDeque<u8>,
    pub rbuf_cap: usize,
    pub writer_waker: Option<Waker>,
    pub reader_waker: Option<Waker>,
    pub fin_written: bool,
    pub fin_delivered: bool,
    pub stalled: bool,
    pub written: u64,
    pub delivered: u64,
    pub read: u64,
    /// every byte the writer produced, in order (the wire tap)
    pub tap: Vec<u8>,
    pub keep_tap: bool,
    /// reader-side faults
    pub read_err: Option<(u64, io::ErrorKind)>,
    pub read_eof: Option<u64>,
    pub reader_dead: bool,
    /// writer-side faults
    pub write_err: Option<(u64, io::ErrorKind)>,
    pub write_zero: Option<u64>,
    pub flush_err: Option<(u64, io::ErrorKind)>,
    pub shutdown_err: Option<io::ErrorKind>,
    pub flush_calls: u64,
    pub shutdown_done: bool,
    pub read_calls: u64,
    pub write_calls: u64,
    /// (absolute offset, xor mask): corrupt the writer's byte stream (hostile peer only)
    pub corrupt: Vec<(u64, u8)>,
}

pub struct NetInner {
    /// dirs[0]: side 0 writes, side 1 reads. dirs[1]: side 1 writes, side 0 reads.
    pub dirs: [Dir; 2],
    pub faults: FaultCounters,
    pub calls_with_lock_held: u64,
    pub progress: u64,
}

#[derive(Clone)]
pub struct Net(pub Arc<Mutex<NetInner>>);

impl Net {
    pub fn new(cap0: (usize, usize), cap1: (usize, usize)) -> Net {
        let mut n = NetInner {
            dirs: [Dir::default(), Dir::default()],
            faults: FaultCounters::default(),
            calls_with_lock_held: 0,
            progress: 0,
        };
        n.dirs[0].inflight_cap = cap0.0.max(1);
        n.dirs[0].rbuf_cap = cap0.1.max(1);
        n.dirs[1].inflight_cap = cap1.0.max(1);
        n.dirs[1].rbuf_cap = cap1.1.max(1);
        n.dirs[0].keep_tap = true;
        n.dirs[1].keep_tap = true;
        Net(Arc::new(Mutex::new(n)))
    }

    pub fn io(&self, side: usize, cfg: IoCfg, tape: Tape) -> SimIo {
        SimIo { net: self.clone(), side, cfg, tape, write_calls: 0 }
    }

    pub fn lock(&self) -> std::sync::MutexGuard<'_, NetInner> {
        match self.0.lock() {
            Ok(g) => g,
            Err(p) => p.into_inner(),
        }
    }

    pub fn add_fault(&self, side: usize, f: IoFault) {
        let mut n = self.lock();
        match f {
            IoFault::ReadError { at, kind } => n.dirs[1 - side].read_err = Some((at, kind)),
            IoFault::ReadEof { at } => n.dirs[1 - side].read_eof = Some(at),
            IoFault::WriteError { at, kind } => n.dirs[side].write_err = Some((at, kind)),
            IoFault::WriteZero { at } => n.dirs[side].write_zero = Some(at),
            IoFault::FlushError { call, kind } => n.dirs[side].flush_err = Some((call, kind)),
            IoFault::ShutdownError { kind } => n.dirs[side].shutdown_err = Some(kind),
        }
    }

    /// Is there anything the link of direction `d` could do right now?
    pub fn link_runnable(&self, d: usize) -> bool {
        let n = self.lock();
        let dir = &n.dirs[d];
        if dir.stalled {
            return false;
        }
        (!dir.inflight.is_empty() && dir.rbuf.len() < dir.rbuf_cap)
            || (dir.fin_written && !dir.fin_delivered && dir.inflight.is_empty())
    }

    pub fn link_pending(&self, d: usize) -> bool {
        let n = self.lock();
        let dir = &n.dirs[d];
        !dir.inflight.is_empty() || (dir.fin_written && !dir.fin_delivered)
    }

    /// Move bytes from `inflight` to `rbuf` (amount drawn from the tape; 0 ⇒ everything
    /// that fits) and wake whoever can now make progress.
    pub fn link_step(&self, d: usize, tape: &Tape, frag_pct: u32) {
        let (rw, ww) = {
            let mut n = self.lock();
            let mut fragged = false;
            let dir = &mut n.dirs[d];
            let room = dir.rbuf_cap.saturating_sub(dir.rbuf.len());
            let mut k = dir.inflight.len().min(room);
            if k > 1 && tape.chance(Lane::Io, frag_pct, 100) {
                k = draw_chunk(tape, k);
                fragged = true;
            }
            let was_full = dir.inflight.len() >= dir.inflight_cap;
            for _ in 0..k {
                let b = dir.inflight.pop_front().unwrap();
                dir.rbuf.push_back(b);
            }
            dir.delivered += k as u64;
            if dir.reader_dead {
                dir.rbuf.clear();
            }
            if dir.inflight.is_empty() && dir.fin_written && !dir.fin_delivered {
                dir.fin_delivered = true;
            }
            let rw = dir.reader_waker.take();
            let ww = if was_full && k > 0 { dir.writer_waker.take() } else { None };
            if fragged {
                n.faults.hit("delay");
            }
            n.progress += 1;
            (rw, ww)
        };
        if let Some(w) = rw {
            w.wake();
        }
        if let Some(w) = ww {
            w.wake();
        }
    }

    pub fn set_stalled(&self, d: usize, stalled: bool) {
        let (rw, ww) = {
            let mut n = self.lock();
            if n.dirs[d].stalled != stalled {
                n.faults.hit(if stalled { "stall" } else { "heal" });
            }
            n.dirs[d].stalled = stalled;
            (None::<Waker>, None::<Waker>)
        };
        drop((rw, ww));
    }

    /// Abruptly close direction `d` from the reader's point of view: pending bytes are
    /// lost, the reader sees EOF.
    pub fn cut(&self, d: usize) {
        let (rw, ww) = {
            let mut n = self.lock();
            let dir = &mut n.dirs[d];
            dir.inflight.clear();
            dir.fin_written = true;
            dir.fin_delivered = true;
            // nothing written from now on may reach the reader (it would arrive after a hole)
            dir.write_err = Some((0, io::ErrorKind::ConnectionReset));
            (dir.reader_waker.take(), dir.writer_waker.take())
        };
        if let Some(w) = rw {
            w.wake();
        }
        if let Some(w) = ww {
            w.wake();
        }
    }

    pub fn set_caps(&self, d: usize, inflight_cap: usize, rbuf_cap: usize) {
        let mut n = self.lock();
        n.dirs[d].inflight_cap = inflight_cap.max(1);
        n.dirs[d].rbuf_cap = rbuf_cap.max(1);
    }

    /// Is the writer of direction `d` blocked by back-pressure right now?
    pub fn writer_blocked(&self, d: usize) -> bool {
        let n = self.lock();
        n.dirs[d].writer_waker.is_some() && n.dirs[d].inflight.len() >= n.dirs[d].inflight_cap
    }

    pub fn tap_len(&self, d: usize) -> usize {
        self.lock().dirs[d].tap.len()
    }

    pub fn progress(&self) -> u64 {
        self.lock().progress
    }
}

pub fn draw_chunk(tape: &Tape, max: usize) -> usize {
    if max <= 1 {
        return max;
    }
    let class = tape.draw(Lane::Io, 4);
    let k = match class {
        0 => 1,
        1 => 1 + tape.draw(Lane::Io, 9.min(max as u32)) as usize,
        2 => 1 + tape.draw(Lane::Io, 64.min(max as u32)) as usize,
        _ => 1 + tape.draw(Lane::Io, max as u32) as usize,
    };
    k.min(max).max(1)
}

pub struct SimIo {
    net: Net,
    side: usize,
    cfg: IoCfg,
    tape: Tape,
    write_calls: u64,
}

impl SimIo {
    fn note_lock(n: &mut NetInner) {
        if h2::verif::locks_held() > 0 {
            n.calls_with_lock_held += 1;
        }
    }
}

fn mkerr(kind: io::ErrorKind) -> io::Error {
    io::Error::new(kind, "simulated transport fault")
}

impl AsyncRead for SimIo {
    fn poll_read(
        self: Pin<&mut Self>,
        cx: &mut Context<'_>,
        buf: &mut ReadBuf<'_>,
    ) -> Poll<io::Result<()>> {
        let this = self.get_mut();
        let d = 1 - this.side;
        let mut n = this.net.lock();
        SimIo::note_lock(&mut n);
        n.dirs[d].read_calls += 1;
        if n.dirs[d].reader_dead {
            // sticky error after a read fault
            return Poll::Ready(Err(mkerr(io::ErrorKind::BrokenPipe)));
        }
        // reader-side faults at exact byte offsets
        if let Some((at, kind)) = n.dirs[d].read_err {
            if n.dirs[d].read >= at {
                n.dirs[d].reader_dead = true;
                n.faults.hit("io_error_read");
                n.progress += 1;
                return Poll::Ready(Err(mkerr(kind)));
            }
        }
        if let Some(at) = n.dirs[d].read_eof {
            if n.dirs[d].read >= at {
                n.faults.hit("eof_half");
                n.progress += 1;
                return Poll::Ready(Ok(()));
            }
        }
        if buf.remaining() == 0 {
            return Poll::Ready(Ok(()));
        }
        if n.dirs[d].rbuf.is_empty() {
            if n.dirs[d].fin_delivered {
                n.progress += 1;
                return Poll::Ready(Ok(()));
            }
            n.dirs[d].reader_waker = Some(cx.waker().clone());
            return Poll::Pending;
        }
        if this.tape.chance(Lane::Io, this.cfg.pend_read, 100) {
            n.faults.hit("pending_read");
            cx.waker().wake_by_ref();
            return Poll::Pending;
        }
        let mut k = n.dirs[d].rbuf.len().min(buf.remaining());
        // never read past a configured fault offset
        if let Some((at, _)) = n.dirs[d].read_err {
            k = k.min((at - n.dirs[d].read) as usize);
        }
        if let Some(at) = n.dirs[d].read_eof {
            k = k.min((at - n.dirs[d].read) as usize);
        }
        if k > 1 && this.tape.chance(Lane::Io, this.cfg.frag_read, 100) {
            k = draw_chunk(&this.tape, k);
            n.faults.hit("frag_read");
        }
        let dir = &mut n.dirs[d];
        let (a, b) = dir.rbuf.as_slices();
        if k <= a.len() {
            buf.put_slice(&a[..k]);
        } else {
            buf.put_slice(a);
            buf.put_slice(&b[..k - a.len()]);
        }
        dir.rbuf.drain(..k);
        dir.read += k as u64;
        n.progress += 1;
        Poll::Ready(Ok(()))
    }
}

impl SimIo {
    fn write_some(&mut self, cx: &mut Context<'_>, bufs: &[&[u8]]) -> Poll<io::Result<usize>> {
        let d = self.side;
        let mut n = self.net.lock();
        SimIo::note_lock(&mut n);
        n.dirs[d].write_calls += 1;
        let total: usize = bufs.iter().map(|b| b.len()).sum();
        if let Some((at, kind)) = n.dirs[d].write_err {
            if n.dirs[d].written >= at {
                n.faults.hit("io_error_write");
                n.progress += 1;
                return Poll::Ready(Err(mkerr(kind)));
            }
        }
        if n.dirs[d].fin_written && n.dirs[d].shutdown_done {
            return Poll::Ready(Err(mkerr(io::ErrorKind::BrokenPipe)));
        }
        if total == 0 {
            return Poll::Ready(Ok(0));
        }
        if let Some(at) = n.dirs[d].write_zero {
            if n.dirs[d].written >= at {
                n.faults.hit("write_zero");
                n.progress += 1;
                return Poll::Ready(Ok(0));
            }
        }
        let room = n.dirs[d].inflight_cap.saturating_sub(n.dirs[d].inflight.len());
        if room == 0 {
            n.dirs[d].writer_waker = Some(cx.waker().clone());
            n.faults.hit("backpressure");
            return Poll::Pending;
        }
        self.write_calls += 1;
        if self.cfg.pend_write_alt && self.write_calls % 2 == 1 {
            n.faults.hit("pending_write_alternating");
            cx.waker().wake_by_ref();
            return Poll::Pending;
        }
        if self.tape.chance(Lane::Io, self.cfg.pend_write, 100) {
            n.faults.hit("pending_write");
            cx.waker().wake_by_ref();
            return Poll::Pending;
        }
        let mut k = total.min(room);
        if let Some((at, _)) = n.dirs[d].write_err {
            k = k.min(((at - n.dirs[d].written) as usize).max(1));
        }
        if let Some(at) = n.dirs[d].write_zero {
            k = k.min(((at - n.dirs[d].written) as usize).max(1));
        }
        if k > 1 && self.tape.chance(Lane::Io, self.cfg.frag_write, 100) {
            k = draw_chunk(&self.tape, k);
            n.faults.hit("frag_write");
        }
        let dir = &mut n.dirs[d];
        let mut left = k;
        let mut pos = dir.written;
        for b in bufs {
            if left == 0 {
                break;
            }
            let t = b.len().min(left);
            if dir.corrupt.is_empty() {
                dir.inflight.extend(&b[..t]);
                if dir.keep_tap {
                    dir.tap.extend_from_slice(&b[..t]);
                }
            } else {
                for (i, x) in b[..t].iter().enumerate() {
                    let mut v = *x;
                    for (at, m) in &dir.corrupt {
                        if *at == pos + i as u64 {
                            v ^= *m;
                        }
                    }
                    dir.inflight.push_back(v);
                    if dir.keep_tap {
                        dir.tap.push(v);
                    }
                }
            }
            pos += t as u64;
            left -= t;
        }
        dir.written += k as u64;
        n.progress += 1;
        Poll::Ready(Ok(k))
    }
}

impl AsyncWrite for SimIo {
    fn poll_write(
        self: Pin<&mut Self>,
        cx: &mut Context<'_>,
        buf: &[u8],
    ) -> Poll<io::Result<usize>> {
        self.get_mut().write_some(cx, &[buf])
    }

    fn poll_write_vectored(
        self: Pin<&mut Self>,
        cx: &mut Context<'_>,
        bufs: &[io::IoSlice<'_>],
    ) -> Poll<io::Result<usize>> {
        let this = self.get_mut();
        let v: Vec<&[u8]> = bufs.iter().map(|b| &**b).collect();
        {
            let mut n = this.net.lock();
            n.faults.hit("vectored_write");
        }
        this.write_some(cx, &v)
    }

    fn is_write_vectored(&self) -> bool {
        self.cfg.vectored
    }

    fn poll_flush(self: Pin<&mut Self>, cx: &mut Context<'_>) -> Poll<io::Result<()>> {
        let this = self.get_mut();
        let d = this.side;
        let mut n = this.net.lock();
        SimIo::note_lock(&mut n);
        if this.tape.chance(Lane::Io, this.cfg.pend_flush, 100) {
            n.faults.hit("pending_flush");
            cx.waker().wake_by_ref();
            return Poll::Pending;
        }
        let call = n.dirs[d].flush_calls;
        n.dirs[d].flush_calls += 1;
        if let Some((c, kind)) = n.dirs[d].flush_err {
            if call >= c {
                n.faults.hit("io_error_flush");
                n.progress += 1;
                return Poll::Ready(Err(mkerr(kind)));
            }
        }
        Poll::Ready(Ok(()))
    }

    fn poll_shutdown(self: Pin<&mut Self>, cx: &mut Context<'_>) -> Poll<io::Result<()>> {
        let this = self.get_mut();
        let d = this.side;
        let mut n = this.net.lock();
        SimIo::note_lock(&mut n);
        if this.tape.chance(Lane::Io, this.cfg.pend_shutdown, 100) {
            n.faults.hit("pending_shutdown");
            cx.waker().wake_by_ref();
            return Poll::Pending;
        }
        if let Some(kind) = n.dirs[d].shutdown_err {
            n.faults.hit("io_error_shutdown");
            n.progress += 1;
            return Poll::Ready(Err(mkerr(kind)));
        }
        if !n.dirs[d].fin_written {
            n.dirs[d].fin_written = true;
            n.progress += 1;
        }
        n.dirs[d].shutdown_done = true;
        Poll::Ready(Ok(()))
    }
}

impl Drop for SimIo {
    fn drop(&mut self) {
        // Dropping the transport closes both directions from this side: our writes end
        // (FIN after what is in flight) and the peer's writes can no longer be read.
        let (rw, ww) = {
            let mut n = self.net.lock();
            let d = self.side;
            n.dirs[d].fin_written = true;
            let rw = n.dirs[d].reader_waker.take();
            // peer -> us direction: nobody reads any more; let the peer's writes drain
            let od = 1 - self.side;
            n.dirs[od].reader_dead = true;
            n.dirs[od].rbuf.clear();
            n.dirs[od].rbuf_cap = usize::MAX / 2;
            let ww = n.dirs[od].writer_waker.take();
            (rw, ww)
        };
        if let Some(w) = rw {
            w.wake();
        }
        if let Some(w) = ww {
            w.wake();
        }
    }
}
