//! Which scenarios decide which property, and at what volume per tier.

use crate::t1::{run_t1, RunOut, T1Opts, T1Profile};
use crate::tape::Tape;

#[derive(Clone)]
pub enum Scenario {
    T1(T1Profile),
}

impl Scenario {
    pub fn name(&self) -> &'static str {
        match self {
            Scenario::T1(p) => p.name,
        }
    }
    pub fn run(&self, tape: Tape, want_sample: bool) -> RunOut {
        match self {
            Scenario::T1(p) => run_t1(p, tape, &T1Opts { want_sample, keep_log: true }),
        }
    }
    pub fn topology(&self) -> &'static str {
        match self {
            Scenario::T1(_) => "T1 real client <-> real server",
        }
    }
}

pub struct Entry {
    pub scenario: Scenario,
    /// runs in the quick / thorough tier
    pub quick: u64,
    pub thorough: u64,
}

pub fn t1_coop() -> T1Profile {
    T1Profile::base("t1-coop")
}

pub fn t1_coop_settings() -> T1Profile {
    let mut p = T1Profile::base("t1-coop-settings");
    p.settings_changes = true;
    p.pings = true;
    p
}

pub fn t1_aborts() -> T1Profile {
    let mut p = T1Profile::base("t1-aborts");
    p.work.aborts = true;
    p.work.stop_reading = true;
    // (no poll_reset waits here: waiting for a reset of a stream that then finishes cleanly
    // is a wait the application itself made unsatisfiable; see the fatal/shutdown profiles)
    p.work.any_code = true;
    p.settings_changes = true;
    p.pings = true;
    p
}

pub fn t1_fatal() -> T1Profile {
    let mut p = T1Profile::base("t1-fatal");
    p.cooperative = false;
    p.work.aborts = true;
    p.work.stop_reading = true;
    p.work.wait_reset = true;
    p.fatal_fault = true;
    p.pings = true;
    p
}

pub fn t1_shutdown() -> T1Profile {
    let mut p = T1Profile::base("t1-shutdown");
    p.shutdowns = true;
    p.work.aborts = true;
    p.pings = true;
    p
}

pub fn t1_push() -> T1Profile {
    let mut p = T1Profile::base("t1-push");
    p.work.pushes = true;
    p.push_adopt_all = true;
    p
}

pub fn t1_push_unadopted() -> T1Profile {
    let mut p = T1Profile::base("t1-push-unadopted");
    p.work.pushes = true;
    // an application that leaves push enabled but never takes the promises holds their
    // data (and connection window) itself: progress is not owed
    p.progress_oracle = false;
    p
}

pub fn all_scenarios() -> Vec<Scenario> {
    vec![
        Scenario::T1(t1_push()),
        Scenario::T1(t1_push_unadopted()),
        Scenario::T1(t1_coop()),
        Scenario::T1(t1_coop_settings()),
        Scenario::T1(t1_aborts()),
        Scenario::T1(t1_fatal()),
        Scenario::T1(t1_shutdown()),
    ]
}

pub fn scenario_by_name(n: &str) -> Option<Scenario> {
    all_scenarios().into_iter().find(|s| s.name() == n)
}

pub fn entries_for(prop: &str) -> Vec<Entry> {
    let e = |s: Scenario, q: u64, t: u64| Entry { scenario: s, quick: q, thorough: t };
    match prop {
        "C01" => vec![
            e(Scenario::T1(t1_coop()), 6000, 200_000),
            e(Scenario::T1(t1_coop_settings()), 3000, 100_000),
            e(Scenario::T1(t1_aborts()), 3000, 100_000),
            e(Scenario::T1(t1_fatal()), 2000, 60_000),
        ],
        "C06" => vec![e(Scenario::T1(t1_coop()), 6000, 200_000), e(Scenario::T1(t1_coop_settings()), 6000, 200_000), e(Scenario::T1(t1_aborts()), 3000, 100_000)],
        _ => vec![],
    }
}

pub const ALL_PROPS: &[&str] = &[
    "C01", "C02", "C03", "C04", "C05", "C06", "C07", "C08", "C09", "C10", "C11", "C12", "C13", "C14", "C15", "C16", "C17", "C18", "C19", "C20",
];
