//! Which scenarios decide which property, and at what volume per tier.

use crate::t1::{run_t1, RunOut, T1Opts, T1Profile};
use crate::t2::{run_t2, T2Kind, T2Profile};
use crate::tape::Tape;

#[derive(Clone)]
pub enum Scenario {
    T1(T1Profile),
    T2(T2Profile),
    /// C07 cut-point sweep over one scenario (bool: quick density)
    T1Sweep(T1Profile, bool),
}

impl Scenario {
    pub fn name(&self) -> &'static str {
        match self {
            Scenario::T1(p) => p.name,
            Scenario::T2(p) => p.name,
            Scenario::T1Sweep(p, _) => p.name,
        }
    }
    pub fn run(&self, tape: Tape, want_sample: bool) -> RunOut {
        match self {
            Scenario::T1(p) => run_t1(p, tape, &T1Opts { want_sample, keep_log: true, fault_override: None }),
            Scenario::T1Sweep(p, quick) => crate::t1::run_t1_sweep(p, tape, want_sample, *quick),
            Scenario::T2(p) => run_t2(p, tape, want_sample),
        }
    }
    pub fn topology(&self) -> &'static str {
        match self {
            Scenario::T1(_) => "T1 real client <-> real server",
            Scenario::T2(_) => "T2 real endpoint <-> scripted peer",
            Scenario::T1Sweep(..) => "T1 real client <-> real server, every cut point of one scenario",
        }
    }
}

pub fn t2(name: &'static str, kind: T2Kind, e_client: Option<bool>) -> T2Profile {
    T2Profile { name, kind, e_client, max_steps: 400_000, io_noise: true }
}

pub fn t2_all() -> Vec<T2Profile> {
    vec![
        t2("t2-legal", T2Kind::Legal, None),
        t2("t2-violation", T2Kind::Violation, None),
        t2("t2-malformed", T2Kind::Malformed, None),
        t2("t2-hpack", T2Kind::Hpack, None),
        t2("t2-flood", T2Kind::Flood, None),
        t2("t2-corrupt", T2Kind::Corrupt, None),
        t2("t2-ackpressure", T2Kind::AckPressure, None),
        t2("t2-exhaust", T2Kind::Exhaust, Some(false)),
        t2("t2-graceful", T2Kind::Graceful, Some(false)),
        t2("t2-push-goaway", T2Kind::PushGoaway, Some(false)),
    ]
}

pub struct Entry {
    pub scenario: Scenario,
    /// runs in the quick / thorough tier
    pub quick: u64,
    pub thorough: u64,
}

pub fn t1_coop() -> T1Profile {
    T1Profile::base("t1-coop")
}

pub fn t1_coop_settings() -> T1Profile {
    let mut p = T1Profile::base("t1-coop-settings");
    p.settings_changes = true;
    p.pings = true;
    p
}

pub fn t1_aborts() -> T1Profile {
    let mut p = T1Profile::base("t1-aborts");
    p.work.aborts = true;
    p.work.stop_reading = true;
    // (no poll_reset waits here: waiting for a reset of a stream that then finishes cleanly
    // is a wait the application itself made unsatisfiable; see the fatal/shutdown profiles)
    p.work.any_code = true;
    p.settings_changes = true;
    p.pings = true;
    p
}

pub fn t1_fatal() -> T1Profile {
    let mut p = T1Profile::base("t1-fatal");
    p.cooperative = false;
    p.work.aborts = true;
    p.work.stop_reading = true;
    p.work.wait_reset = true;
    p.fatal_fault = true;
    p.pings = true;
    p
}

pub fn t1_fatal_push() -> T1Profile {
    let mut p = t1_fatal();
    p.name = "t1-fatal-push";
    p.work.pushes = true;
    p
}

pub fn t1_shutdown() -> T1Profile {
    let mut p = T1Profile::base("t1-shutdown");
    p.shutdowns = true;
    p.work.aborts = true;
    p.pings = true;
    p
}

pub fn t1_sweep(name: &'static str) -> T1Profile {
    let mut p = T1Profile::base(name);
    p.cooperative = false;
    p.max_streams = 4;
    p.work.max_body = 3000;
    p.work.aborts = true;
    p.work.wait_reset = true;
    p.work.stop_reading = true;
    p.work.max_header_fields = 3;
    p.work.header_budget = 400;
    p.pings = true;
    p.idle_check = false;
    p.tiny_buffers = false;
    p
}

pub fn t1_sweep_push(name: &'static str) -> T1Profile {
    let mut p = t1_sweep(name);
    p.work.pushes = true;
    p
}

/// The request handle goes first, streams (some of them reset) finish later: the client
/// connection has to notice by itself that nothing is left and close.
pub fn t1_selfclose() -> T1Profile {
    let mut p = T1Profile::base("t1-selfclose");
    p.work.aborts = true;
    p.idle_check = false;
    p.max_streams = 3;
    p
}

pub fn t1_capacity() -> T1Profile {
    let mut p = T1Profile::base("t1-capacity");
    p.max_streams = 10;
    p.work.max_body = 6000;
    p.work.aborts = true;
    p.work.stop_reading = true;
    p.work.any_code = true;
    p.settings_changes = true;
    p
}

pub fn t1_inject() -> T1Profile {
    let mut p = T1Profile::base("t1-inject");
    p.inject = true;
    p.work.aborts = true;
    p.work.stop_reading = true;
    p.work.any_code = true;
    p.settings_changes = true;
    p.pings = true;
    p.many_clones = true;
    p
}

pub fn t1_inject_fatal() -> T1Profile {
    let mut p = t1_fatal();
    p.name = "t1-inject-fatal";
    p.inject = true;
    p
}

pub fn t1_graceful() -> T1Profile {
    let mut p = T1Profile::base("t1-graceful");
    p.shutdowns = true;
    p.graceful_only = true;
    p.pings = true;
    p
}

pub fn t1_push() -> T1Profile {
    let mut p = T1Profile::base("t1-push");
    p.work.pushes = true;
    p.push_adopt_all = true;
    p
}

/// Promises first, pushed responses later and possibly in reverse order (PUSH_PROMISE
/// already on the wire when the response is submitted).
pub fn t1_push_deferred() -> T1Profile {
    let mut p = t1_push();
    p.name = "t1-push-deferred";
    p.work.deferred_pushes = true;
    p
}

pub fn t1_push_unadopted() -> T1Profile {
    let mut p = T1Profile::base("t1-push-unadopted");
    p.work.pushes = true;
    // an application that leaves push enabled but never takes the promises holds their
    // data (and connection window) itself: progress is not owed
    p.progress_oracle = false;
    p
}

pub fn all_scenarios() -> Vec<Scenario> {
    vec![
        Scenario::T1(t1_push()),
        Scenario::T1(t1_push_unadopted()),
        Scenario::T1(t1_coop()),
        Scenario::T1(t1_coop_settings()),
        Scenario::T1(t1_aborts()),
        Scenario::T1(t1_fatal()),
        Scenario::T1(t1_fatal_push()),
        Scenario::T1(t1_shutdown()),
        Scenario::T1(t1_conc()),
        Scenario::T1(t1_headers()),
        Scenario::T1(t1_graceful()),
        Scenario::T1(t1_selfclose()),
        Scenario::T1(t1_push_deferred()),
        Scenario::T1(t1_capacity()),
        Scenario::T1(t1_inject()),
        Scenario::T1(t1_inject_fatal()),
        Scenario::T1Sweep(t1_sweep("t1-sweep-quick"), true),
        Scenario::T1Sweep(t1_sweep("t1-sweep-full"), false),
        Scenario::T1Sweep(t1_sweep_push("t1-sweep-push-quick"), true),
        Scenario::T1Sweep(t1_sweep_push("t1-sweep-push-full"), false),
    ]
    .into_iter()
    .chain(t2_all().into_iter().map(Scenario::T2))
    .collect()
}

pub fn scenario_by_name(n: &str) -> Option<Scenario> {
    all_scenarios().into_iter().find(|s| s.name() == n)
}

pub fn t1_conc() -> T1Profile {
    let mut p = T1Profile::base("t1-conc");
    p.max_streams = 24;
    p.work.max_body = 3000;
    p.work.aborts = true;
    p.work.stop_reading = true;
    p.cfg_space.zero_concurrency = false;
    p.settings_changes = false;
    p
}

pub fn t1_headers() -> T1Profile {
    let mut p = T1Profile::base("t1-headers");
    p.work.max_header_fields = 40;
    p.work.header_budget = 60_000;
    p.work.max_body = 2000;
    p.max_streams = 10;
    p
}

pub fn entries_for(prop: &str) -> Vec<Entry> {
    let e = |s: Scenario, q: u64, t: u64| Entry { scenario: s, quick: q, thorough: t };
    let t1 = |p: T1Profile| Scenario::T1(p);
    let t2s = |n: &str| Scenario::T2(t2_all().into_iter().find(|p| p.name == n).unwrap());
    match prop {
        "C01" => vec![
            e(t1(t1_coop()), 5000, 200_000),
            e(t1(t1_coop_settings()), 3000, 100_000),
            e(t1(t1_aborts()), 3000, 100_000),
            e(t1(t1_headers()), 1500, 50_000),
            e(t1(t1_push()), 1500, 50_000),
            e(t1(t1_fatal()), 2000, 60_000),
        ],
        "C02" => vec![e(t1(t1_coop_settings()), 5000, 200_000), e(t1(t1_aborts()), 4000, 150_000), e(t1(t1_push()), 3000, 100_000), e(t1(t1_coop()), 2000, 100_000), e(t1(t1_conc()), 2000, 60_000)],
        "C03" => vec![
            e(t1(t1_coop_settings()), 4000, 150_000),
            e(t1(t1_aborts()), 4000, 150_000),
            e(t2s("t2-exhaust"), 4000, 150_000),
            e(t1(t1_push_unadopted()), 2500, 80_000),
            e(t1(t1_push()), 2500, 80_000),
            e(t2s("t2-legal"), 2000, 60_000),
            e(t1(t1_coop()), 1500, 50_000),
        ],
        "C04" => vec![
            e(t1(t1_aborts()), 5000, 150_000),
            e(t1(t1_coop()), 2000, 60_000),
            e(t1(t1_headers()), 1500, 50_000),
            e(t1(t1_push()), 2000, 60_000),
            e(t1(t1_fatal()), 2000, 60_000),
            e(t1(t1_shutdown()), 2000, 60_000),
        ],
        "C05" => vec![e(t1(t1_conc()), 6000, 200_000), e(t1(t1_aborts()), 3000, 100_000), e(t1(t1_push_deferred()), 3000, 100_000), e(t1(t1_coop_settings()), 2000, 60_000)],
        "C06" => vec![e(t1(t1_coop()), 5000, 200_000), e(t1(t1_coop_settings()), 5000, 200_000), e(t1(t1_aborts()), 3000, 100_000), e(t1(t1_conc()), 1500, 50_000), e(t1(t1_push()), 1500, 50_000)],
        "C07" => vec![
            Entry { scenario: Scenario::T1Sweep(t1_sweep("t1-sweep-quick"), true), quick: 40, thorough: 0 },
            Entry { scenario: Scenario::T1Sweep(t1_sweep("t1-sweep-full"), false), quick: 0, thorough: 400 },
            Entry { scenario: Scenario::T1Sweep(t1_sweep_push("t1-sweep-push-quick"), true), quick: 20, thorough: 0 },
            Entry { scenario: Scenario::T1Sweep(t1_sweep_push("t1-sweep-push-full"), false), quick: 0, thorough: 200 },
            e(t1(t1_fatal()), 5000, 200_000),
            e(t1(t1_fatal_push()), 3000, 100_000),
            e(t1(t1_shutdown()), 3000, 100_000),
        ],
        "C15" => vec![e(t1(t1_shutdown()), 6000, 250_000), e(t1(t1_graceful()), 4000, 150_000), e(t2s("t2-graceful"), 5000, 200_000), e(t2s("t2-push-goaway"), 2000, 60_000), e(t1(t1_push_deferred()), 4000, 100_000), e(t1(t1_fatal()), 1500, 50_000)],
        "C16" => vec![e(t1(t1_capacity()), 8000, 250_000), e(t1(t1_coop_settings()), 3000, 100_000), e(t1(t1_aborts()), 3000, 100_000), e(t1(t1_conc()), 2000, 60_000)],
        "C20" => vec![e(t1(t1_inject()), 12_000, 400_000), e(t1(t1_inject_fatal()), 4000, 100_000)],
        "C08" => vec![e(t2s("t2-corrupt"), 8000, 300_000), e(t2s("t2-push-goaway"), 3000, 100_000), e(t2s("t2-violation"), 3000, 100_000), e(t2s("t2-flood"), 1500, 40_000), e(t2s("t2-hpack"), 2000, 60_000), e(t2s("t2-malformed"), 2000, 60_000), e(t1(t1_fatal()), 2000, 60_000)],
        "C09" => vec![e(t2s("t2-violation"), 8000, 300_000), e(t2s("t2-legal"), 6000, 200_000), e(t1(t1_aborts()), 3000, 100_000), e(t1(t1_coop()), 2000, 60_000), e(t1(t1_push()), 1500, 50_000)],
        "C11" => vec![e(t2s("t2-hpack"), 12000, 400_000)],
        "C13" => vec![e(t2s("t2-malformed"), 12000, 400_000)],
        "C18" => vec![e(t2s("t2-flood"), 4000, 100_000)],
        "C10" => vec![e(t1(t1_headers()), 4000, 150_000), e(t1(t1_coop()), 2000, 60_000), e(t2s("t2-ackpressure"), 4000, 150_000), e(t2s("t2-legal"), 3000, 100_000), e(t2s("t2-hpack"), 3000, 100_000), e(t1(t1_push()), 1500, 50_000)],
        "C12" => vec![e(t1(t1_coop()), 3000, 100_000), e(t1(t1_headers()), 3000, 100_000), e(t2s("t2-legal"), 3000, 100_000), e(t2s("t2-violation"), 2000, 60_000), e(t1(t1_aborts()), 1500, 50_000)],
        "C14" => vec![e(t1(t1_coop_settings()), 5000, 200_000), e(t2s("t2-ackpressure"), 5000, 200_000), e(t1(t1_graceful()), 3000, 100_000), e(t2s("t2-violation"), 2000, 60_000), e(t1(t1_aborts()), 2000, 60_000)],
        "C17" => vec![e(t1(t1_aborts()), 7000, 250_000), e(t1(t1_shutdown()), 3000, 100_000), e(t1(t1_conc()), 2000, 60_000), e(t1(t1_fatal()), 2000, 60_000)],
        "C19" => vec![e(t1(t1_coop()), 3500, 150_000), e(t1(t1_aborts()), 3500, 150_000), e(t1(t1_selfclose()), 3000, 100_000), e(t1(t1_conc()), 2000, 60_000), e(t1(t1_push_unadopted()), 1500, 50_000)],
        _ => vec![],
    }
}

pub const ALL_PROPS: &[&str] = &[
    "C01", "C02", "C03", "C04", "C05", "C06", "C07", "C08", "C09", "C10", "C11", "C12", "C13", "C14", "C15", "C16", "C17", "C18", "C19", "C20",
];
