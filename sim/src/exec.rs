//! Single-threaded deterministic executor. A task is polled only when its waker fired
//! (strict mode); the next runnable entity (task or network link) is chosen by the tape.

use crate::net::{FaultCounters, Net};
use crate::tape::{Lane, Tape};
use std::future::Future;
use std::panic::{catch_unwind, AssertUnwindSafe};
use std::pin::Pin;
use std::sync::{Arc, Mutex};
use std::task::{Context, Poll, Wake, Waker};

pub type BoxFut = Pin<Box<dyn Future<Output = ()> + Send>>;

pub struct TaskWaker {
    pub id: usize,
    pub queue: Arc<Mutex<Vec<usize>>>,
}

impl Wake for TaskWaker {
    fn wake(self: Arc<Self>) {
        self.wake_by_ref()
    }
    fn wake_by_ref(self: &Arc<Self>) {
        let mut q = self.queue.lock().unwrap();
        if !q.contains(&self.id) {
            q.push(self.id);
        }
    }
}

#[derive(Clone, Default)]
pub struct Spawner(pub Arc<Mutex<Vec<(String, BoxFut)>>>);

impl Spawner {
    pub fn spawn(&self, name: impl Into<String>, f: impl Future<Output = ()> + Send + 'static) {
        self.0.lock().unwrap().push((name.into(), Box::pin(f)));
    }
}

/// Shared per-task status strings ("what am I parked on"), written by the programs.
#[derive(Clone, Default)]
pub struct Status(pub Arc<Mutex<std::collections::BTreeMap<String, String>>>);

impl Status {
    pub fn set(&self, task: &str, what: &str) {
        let mut m = self.0.lock().unwrap();
        match m.get_mut(task) {
            Some(v) => {
                v.clear();
                v.push_str(what)
            }
            None => {
                m.insert(task.to_string(), what.to_string());
            }
        }
    }
    pub fn get(&self, task: &str) -> String {
        self.0.lock().unwrap().get(task).cloned().unwrap_or_default()
    }
}

pub struct TaskSlot {
    pub name: String,
    pub fut: Option<BoxFut>,
    pub polls: u64,
    pub waker: Waker,
}

#[derive(Debug, Clone)]
pub struct PanicInfo {
    pub task: String,
    pub msg: String,
    pub step: u64,
}

#[derive(Debug, Clone)]
pub struct ExecCfg {
    pub max_steps: u64,
    /// percent chance per step of polling a task whose waker did not fire (fault)
    pub spurious_pct: u32,
    /// percent chance per step of a forward clock jump
    pub clock_jump_pct: u32,
    /// percent chance that a link step delivers only part of what is in flight
    pub link_frag_pct: u32,
    /// consecutive no-progress steps tolerated before the livelock oracle fires
    pub livelock_limit: u64,
    /// C20: percent chance, at each lock / atomic yield point inside a connection task's
    /// poll, of running a whole poll of an application task right there (as another thread
    /// would between two of the connection's critical sections)
    pub inject_pct: u32,
}

impl Default for ExecCfg {
    fn default() -> Self {
        ExecCfg {
            max_steps: 400_000,
            spurious_pct: 0,
            clock_jump_pct: 0,
            link_frag_pct: 0,
            livelock_limit: 20_000,
            inject_pct: 0,
        }
    }
}

#[derive(Debug, Clone, Copy, PartialEq, Eq)]
pub enum Entity {
    Task(usize),
    Link(usize),
}

#[derive(Debug, Clone, PartialEq, Eq)]
pub enum StepOutcome {
    Ran(Entity),
    Quiescent,
    StepBudget,
    Livelock(String),
    /// a task panicked: the run stops at once (h2's locks may be poisoned)
    Panicked,
}

thread_local! {
    pub static CURRENT_TASK: std::cell::RefCell<String> = const { std::cell::RefCell::new(String::new()) };
    pub static LAST_PANIC: std::cell::RefCell<Option<String>> = const { std::cell::RefCell::new(None) };
}

pub static TRACE_ON: std::sync::atomic::AtomicBool = std::sync::atomic::AtomicBool::new(false);

pub fn install_panic_hook() {
    use std::sync::Once;
    static ONCE: Once = Once::new();
    ONCE.call_once(|| {
        let default = std::panic::take_hook();
        std::panic::set_hook(Box::new(move |info| {
            let loc = info
                .location()
                .map(|l| format!("{}:{}", l.file(), l.line()))
                .unwrap_or_default();
            let msg = if let Some(s) = info.payload().downcast_ref::<&str>() {
                s.to_string()
            } else if let Some(s) = info.payload().downcast_ref::<String>() {
                s.clone()
            } else {
                "<non-string panic>".to_string()
            };
            LAST_PANIC.with(|c| *c.borrow_mut() = Some(format!("{} at {}", msg, loc)));
            if std::env::var_os("H2SIM_SHOW_PANICS").is_some() {
                default(info);
            }
        }));
    });
}

pub struct Exec {
    pub tasks: Vec<TaskSlot>,
    pub queue: Arc<Mutex<Vec<usize>>>,
    pub spawner: Spawner,
    pub status: Status,
    pub net: Option<Net>,
    pub tape: Tape,
    pub cfg: ExecCfg,
    pub step: u64,
    pub now_ns: u64,
    pub sched_hash: u64,
    pub panics: Vec<PanicInfo>,
    pub faults: FaultCounters,
    /// bumped by programs whenever an API call returned something other than Pending
    pub api_progress: Arc<std::sync::atomic::AtomicU64>,
    last_progress: (u64, u64),
    no_progress_steps: u64,
    pub max_no_progress: u64,
    pub current_task: Option<usize>,
    pub injecting: bool,
    pub injected: u64,
    pub yield_points: u64,
}

impl Exec {
    pub fn new(tape: Tape, net: Option<Net>, cfg: ExecCfg) -> Exec {
        install_panic_hook();
        Exec {
            tasks: Vec::new(),
            queue: Arc::new(Mutex::new(Vec::new())),
            spawner: Spawner::default(),
            status: Status::default(),
            net,
            tape,
            cfg,
            step: 0,
            now_ns: 1_000_000,
            sched_hash: 0xcbf29ce484222325,
            panics: Vec::new(),
            faults: FaultCounters::default(),
            api_progress: Arc::new(std::sync::atomic::AtomicU64::new(0)),
            last_progress: (0, 0),
            no_progress_steps: 0,
            max_no_progress: 0,
            current_task: None,
            injecting: false,
            injected: 0,
            yield_points: 0,
        }
    }

    pub fn spawn(&mut self, name: impl Into<String>, f: impl Future<Output = ()> + Send + 'static) -> usize {
        self.add_task(name.into(), Box::pin(f))
    }

    fn add_task(&mut self, name: String, fut: BoxFut) -> usize {
        let id = self.tasks.len();
        let waker = Waker::from(Arc::new(TaskWaker { id, queue: self.queue.clone() }));
        self.tasks.push(TaskSlot { name, fut: Some(fut), polls: 0, waker });
        self.queue.lock().unwrap().push(id);
        id
    }

    fn drain_spawns(&mut self) {
        let new: Vec<(String, BoxFut)> = std::mem::take(&mut *self.spawner.0.lock().unwrap());
        for (n, f) in new {
            self.add_task(n, f);
        }
    }

    pub fn unfinished(&self) -> Vec<(String, String)> {
        self.tasks
            .iter()
            .filter(|t| t.fut.is_some())
            .map(|t| (t.name.clone(), self.status.get(&t.name)))
            .collect()
    }

    pub fn all_done(&self) -> bool {
        self.tasks.iter().all(|t| t.fut.is_none())
    }

    pub fn task_done(&self, id: usize) -> bool {
        self.tasks[id].fut.is_none()
    }

    /// Drop a task's future (used to model "the owner dropped this object").
    pub fn kill_task(&mut self, id: usize) {
        if let Some(f) = self.tasks[id].fut.take() {
            let r = catch_unwind(AssertUnwindSafe(move || drop(f)));
            if r.is_err() {
                let msg = LAST_PANIC.with(|c| c.borrow_mut().take()).unwrap_or_default();
                self.panics.push(PanicInfo { task: format!("drop of {}", self.tasks[id].name), msg, step: self.step });
            }
        }
        self.queue.lock().unwrap().retain(|x| *x != id);
    }

    pub fn wake_task(&self, id: usize) {
        self.tasks[id].waker.wake_by_ref();
    }

    fn advance_clock(&mut self) {
        self.now_ns += 1_000;
        if self.cfg.clock_jump_pct > 0 && self.tape.chance(Lane::Fault, self.cfg.clock_jump_pct, 100) {
            let jumps: [u64; 5] = [1_000_000, 50_000_000, 1_000_000_000, 31_000_000_000, 600_000_000_000];
            self.now_ns += *self.tape.pick(Lane::Fault, &jumps);
            self.faults.hit("clock_jump");
        }
        h2::verif::set_now_ns(self.now_ns);
    }

    pub fn jump_clock(&mut self, ns: u64) {
        self.now_ns += ns;
        h2::verif::set_now_ns(self.now_ns);
        self.faults.hit("clock_jump");
    }

    /// One scheduling step.
    pub fn step_once(&mut self) -> StepOutcome {
        self.drain_spawns();
        if !self.panics.is_empty() {
            return StepOutcome::Panicked;
        }
        if self.step >= self.cfg.max_steps {
            return StepOutcome::StepBudget;
        }
        // runnable entities: woken tasks (FIFO order), then runnable links
        let mut ents: Vec<Entity> = {
            let q = self.queue.lock().unwrap();
            q.iter().filter(|id| self.tasks[**id].fut.is_some()).map(|id| Entity::Task(*id)).collect()
        };
        if let Some(net) = &self.net {
            for d in 0..2 {
                if net.link_runnable(d) {
                    ents.push(Entity::Link(d));
                }
            }
        }
        if ents.is_empty() {
            // purge dead ids
            self.queue.lock().unwrap().clear();
            return StepOutcome::Quiescent;
        }
        let mut ent = ents[self.tape.draw(Lane::Sched, ents.len() as u32) as usize];
        if self.cfg.spurious_pct > 0 && self.tape.chance(Lane::Fault, self.cfg.spurious_pct, 100) {
            let live: Vec<usize> = (0..self.tasks.len()).filter(|i| self.tasks[*i].fut.is_some()).collect();
            if !live.is_empty() {
                ent = Entity::Task(*self.tape.pick(Lane::Fault, &live));
                self.faults.hit("spurious_wake");
            }
        }
        self.step += 1;
        self.advance_clock();
        let code = match ent {
            Entity::Task(i) => i as u64,
            Entity::Link(d) => 1_000_000 + d as u64,
        };
        self.sched_hash = (self.sched_hash ^ code).wrapping_mul(0x100000001b3);
        match ent {
            Entity::Link(d) => {
                let net = self.net.clone().unwrap();
                net.link_step(d, &self.tape, self.cfg.link_frag_pct);
            }
            Entity::Task(id) => {
                self.queue.lock().unwrap().retain(|x| *x != id);
                self.poll_task(id);
            }
        }
        // livelock oracle: steps without any transport or API progress
        let prog = (
            self.net.as_ref().map(|n| n.progress()).unwrap_or(0),
            self.api_progress.load(std::sync::atomic::Ordering::Relaxed),
        );
        if prog != self.last_progress {
            self.last_progress = prog;
            self.no_progress_steps = 0;
        } else {
            self.no_progress_steps += 1;
            self.max_no_progress = self.max_no_progress.max(self.no_progress_steps);
            if self.no_progress_steps > self.cfg.livelock_limit {
                let name = match ent {
                    Entity::Task(i) => self.tasks[i].name.clone(),
                    Entity::Link(d) => format!("link{}", d),
                };
                return StepOutcome::Livelock(name);
            }
        }
        StepOutcome::Ran(ent)
    }

    pub fn poll_task(&mut self, id: usize) {
        let waker = self.tasks[id].waker.clone();
        let mut cx = Context::from_waker(&waker);
        self.tasks[id].polls += 1;
        self.current_task = Some(id);
        if TRACE_ON.load(std::sync::atomic::Ordering::Relaxed) {
            let nm = format!("{}@{}", self.tasks[id].name, self.step);
            CURRENT_TASK.with(|c| *c.borrow_mut() = nm);
        }
        let mut fut = match self.tasks[id].fut.take() {
            Some(f) => f,
            None => return,
        };
        let inject = self.cfg.inject_pct > 0 && self.tasks[id].name.ends_with(":conn") && !self.injecting;
        if inject {
            // SAFETY: single-threaded; the hook only runs while this frame is alive and only
            // touches other tasks' slots (this task's future is taken out of its slot).
            let me: *mut Exec = self;
            h2::verif::set_hook(Some(Box::new(move |site| unsafe { (*me).injection_point(id, site) })));
        }
        let r = catch_unwind(AssertUnwindSafe(|| fut.as_mut().poll(&mut cx)));
        if inject {
            h2::verif::set_hook(None);
        }
        self.current_task = None;
        match r {
            Ok(Poll::Ready(())) => {
                let r2 = catch_unwind(AssertUnwindSafe(move || drop(fut)));
                if r2.is_err() {
                    let msg = LAST_PANIC.with(|c| c.borrow_mut().take()).unwrap_or_default();
                    self.panics.push(PanicInfo { task: format!("drop of {}", self.tasks[id].name), msg, step: self.step });
                }
            }
            Ok(Poll::Pending) => {
                self.tasks[id].fut = Some(fut);
            }
            Err(_) => {
                let msg = LAST_PANIC.with(|c| c.borrow_mut().take()).unwrap_or_default();
                self.panics.push(PanicInfo { task: self.tasks[id].name.clone(), msg, step: self.step });
                // never run h2 destructors after a panic: a poisoned lock makes some of them
                // panic again, which aborts the process when it happens during unwinding
                std::mem::forget(fut);
            }
        }
    }

    /// Called from h2's yield hook (before an un-nested lock acquisition or an atomic
    /// operation) while connection task `host` is being polled.
    fn injection_point(&mut self, host: usize, site: h2::verif::Site) {
        self.yield_points += 1;
        if !self.panics.is_empty() || !self.tape.chance(Lane::Inject, self.cfg.inject_pct, 100) {
            return;
        }
        // candidates: woken application tasks (never a connection task, never the host)
        let cands: Vec<usize> = {
            let q = self.queue.lock().unwrap();
            q.iter().copied().filter(|i| *i != host && self.tasks[*i].fut.is_some() && !self.tasks[*i].name.ends_with(":conn") && !self.tasks[*i].name.starts_with("p:")).collect()
        };
        if cands.is_empty() {
            return;
        }
        let pick = cands[self.tape.draw(Lane::Inject, cands.len() as u32) as usize];
        self.queue.lock().unwrap().retain(|x| *x != pick);
        self.injecting = true;
        self.injected += 1;
        let code = 2_000_000 + pick as u64 * 8 + site as u64;
        self.sched_hash = (self.sched_hash ^ code).wrapping_mul(0x100000001b3);
        self.faults.hit("inject_op");
        let saved = self.current_task;
        let saved_label = CURRENT_TASK.with(|c| c.borrow().clone());
        if TRACE_ON.load(std::sync::atomic::Ordering::Relaxed) {
            eprintln!("[sim] >>> injecting poll of {} at {:?} inside {}", self.tasks[pick].name, site, saved_label);
        }
        // events recorded by the injected task belong to its endpoint, not to the host's
        let pick_side = match self.tasks[pick].name.as_bytes().first() {
            Some(b'c') => 0,
            Some(b's') => 1,
            _ => 2,
        };
        h2::verif::event(h2::verif::Ev::Note { site: INJECT_ENTER, id: pick_side });
        self.poll_task(pick);
        h2::verif::event(h2::verif::Ev::Note { site: INJECT_EXIT, id: pick_side });
        if TRACE_ON.load(std::sync::atomic::Ordering::Relaxed) {
            eprintln!("[sim] <<< back in {}", saved_label);
        }
        CURRENT_TASK.with(|c| *c.borrow_mut() = saved_label);
        self.current_task = saved;
        self.injecting = false;
    }

    /// Run until nothing is runnable (or a budget trips). `after` is called after every step.
    pub fn run(&mut self, after: &mut dyn FnMut(&mut Exec, Entity)) -> StepOutcome {
        loop {
            match self.step_once() {
                StepOutcome::Ran(e) => after(self, e),
                o => return o,
            }
        }
    }
}

pub const INJECT_ENTER: &str = "sim:inject-enter";
pub const INJECT_EXIT: &str = "sim:inject-exit";

/// Splits the events recorded during one executor step by endpoint: events of a task that
/// was polled at a yield point inside the host task go to that task's side.
pub fn route_events(evs: &[h2::verif::Ev], host_side: Option<usize>, mut f: impl FnMut(usize, h2::verif::Ev)) {
    let mut cur = host_side;
    let mut stack: Vec<Option<usize>> = Vec::new();
    for e in evs {
        match e {
            h2::verif::Ev::Note { site, id } if *site == INJECT_ENTER => {
                stack.push(cur);
                cur = if *id < 2 { Some(*id as usize) } else { None };
            }
            h2::verif::Ev::Note { site, .. } if *site == INJECT_EXIT => {
                cur = stack.pop().unwrap_or(host_side);
            }
            other => {
                if let Some(s) = cur {
                    f(s, *other);
                }
            }
        }
    }
}

pub struct PollFn<F>(pub F);
impl<F> Unpin for PollFn<F> {}
impl<T, F: FnMut(&mut Context<'_>) -> Poll<T>> Future for PollFn<F> {
    type Output = T;
    fn poll(mut self: Pin<&mut Self>, cx: &mut Context<'_>) -> Poll<T> {
        (self.0)(cx)
    }
}
pub fn poll_fn<T, F: FnMut(&mut Context<'_>) -> Poll<T>>(f: F) -> PollFn<F> {
    PollFn(f)
}

/// A one-shot gate tasks can wait on; opened by the scenario driver.
#[derive(Clone, Default)]
pub struct Gate(Arc<Mutex<(bool, Vec<Waker>)>>);

impl Gate {
    pub fn new() -> Gate {
        Gate::default()
    }
    pub fn open(&self) {
        let ws = {
            let mut g = self.0.lock().unwrap();
            g.0 = true;
            std::mem::take(&mut g.1)
        };
        for w in ws {
            w.wake();
        }
    }
    pub fn is_open(&self) -> bool {
        self.0.lock().unwrap().0
    }
    /// Register a waker to be woken when the gate opens (no-op if already open).
    pub fn register(&self, w: &Waker) {
        let mut g = self.0.lock().unwrap();
        if !g.0 {
            g.1.push(w.clone());
        }
    }
    pub fn wait(&self) -> impl Future<Output = ()> + Send {
        let g = self.clone();
        poll_fn(move |cx| {
            let mut s = g.0.lock().unwrap();
            if s.0 {
                Poll::Ready(())
            } else {
                s.1.push(cx.waker().clone());
                Poll::Pending
            }
        })
    }
}

/// Yield once to the scheduler (re-queues the task).
pub fn yield_now() -> impl Future<Output = ()> + Send {
    let mut done = false;
    poll_fn(move |cx| {
        if done {
            Poll::Ready(())
        } else {
            done = true;
            cx.waker().wake_by_ref();
            Poll::Pending
        }
    })
}

impl Drop for Exec {
    fn drop(&mut self) {
        if !self.panics.is_empty() {
            for t in self.tasks.iter_mut() {
                if let Some(f) = t.fut.take() {
                    std::mem::forget(f);
                }
            }
            let pend = std::mem::take(&mut *self.spawner.0.lock().unwrap());
            std::mem::forget(pend);
        }
    }
}
