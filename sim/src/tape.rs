//! Decision tape: every nondeterministic choice of a run is `draw(lane, bound)`.
//!
//! In search mode each lane is fed by its own SplitMix64 stream derived from the run seed
//! and every value is recorded; in replay mode values are read back (exhausted or out of
//! range ⇒ 0). 0 is always the benign choice (no fault, FIFO scheduling, whole-buffer I/O,
//! smallest workload), which makes shrinking meaningful.

use std::sync::{Arc, Mutex};

#[derive(Debug, Clone, Copy, PartialEq, Eq, Hash)]
#[repr(usize)]
pub enum Lane {
    /// configuration of endpoints and profile toggles
    Cfg = 0,
    /// workload programs (streams, bodies, headers)
    Work = 1,
    /// which runnable entity runs next
    Sched = 2,
    /// transport chunking / pending decisions
    Io = 3,
    /// fault placement
    Fault = 4,
    /// yield-point injection / thread scheduling
    Inject = 5,
    /// scripted peer behaviour (T2)
    Peer = 6,
}
pub const NLANES: usize = 7;
pub const LANE_NAMES: [&str; NLANES] = ["cfg", "work", "sched", "io", "fault", "inject", "peer"];

pub fn splitmix(x: &mut u64) -> u64 {
    *x = x.wrapping_add(0x9E3779B97F4A7C15);
    let mut z = *x;
    z = (z ^ (z >> 30)).wrapping_mul(0xBF58476D1CE4E5B9);
    z = (z ^ (z >> 27)).wrapping_mul(0x94D049BB133111EB);
    z ^ (z >> 31)
}

pub fn mix(a: u64, b: u64) -> u64 {
    let mut x = a ^ b.wrapping_mul(0xD6E8FEB86659FD93);
    splitmix(&mut x)
}

#[derive(Debug, Clone)]
pub struct TapeData {
    pub lanes: [Vec<u32>; NLANES],
}

impl TapeData {
    pub fn empty() -> Self {
        TapeData { lanes: Default::default() }
    }
    pub fn total_len(&self) -> usize {
        self.lanes.iter().map(|l| l.len()).sum()
    }
    pub fn weight(&self) -> u64 {
        self.lanes.iter().flat_map(|l| l.iter()).map(|v| *v as u64 + 1).sum()
    }
}

struct Inner {
    replay: bool,
    rng: [u64; NLANES],
    pos: [usize; NLANES],
    data: TapeData,
    draws: u64,
}

#[derive(Clone)]
pub struct Tape(Arc<Mutex<Inner>>);

impl Tape {
    pub fn from_seed(seed: u64) -> Tape {
        let mut rng = [0u64; NLANES];
        for (i, r) in rng.iter_mut().enumerate() {
            *r = mix(seed, 0x1000 + i as u64);
        }
        Tape(Arc::new(Mutex::new(Inner {
            replay: false,
            rng,
            pos: [0; NLANES],
            data: TapeData::empty(),
            draws: 0,
        })))
    }

    pub fn replay(data: TapeData) -> Tape {
        Tape(Arc::new(Mutex::new(Inner {
            replay: true,
            rng: [0; NLANES],
            pos: [0; NLANES],
            data,
            draws: 0,
        })))
    }

    /// A value in `0..bound` (`bound >= 1`). 0 is the benign choice.
    pub fn draw(&self, lane: Lane, bound: u32) -> u32 {
        let mut t = self.0.lock().unwrap();
        t.draws += 1;
        let l = lane as usize;
        if bound <= 1 {
            return 0;
        }
        if t.replay {
            let p = t.pos[l];
            t.pos[l] += 1;
            let v = t.data.lanes[l].get(p).copied().unwrap_or(0);
            if v >= bound {
                0
            } else {
                v
            }
        } else {
            let r = splitmix(&mut t.rng[l]);
            let v = (r % bound as u64) as u32;
            t.data.lanes[l].push(v);
            v
        }
    }

    /// True with probability num/den; false when the tape says 0.
    pub fn chance(&self, lane: Lane, num: u32, den: u32) -> bool {
        if num == 0 {
            return false;
        }
        let v = self.draw(lane, den);
        v >= den - num.min(den)
    }

    /// Pick an element; index 0 is the benign one.
    pub fn pick<'a, T>(&self, lane: Lane, xs: &'a [T]) -> &'a T {
        &xs[self.draw(lane, xs.len() as u32) as usize]
    }

    /// Value in lo..=hi, benign = lo.
    pub fn range(&self, lane: Lane, lo: u32, hi: u32) -> u32 {
        if hi <= lo {
            return lo;
        }
        lo + self.draw(lane, hi - lo + 1)
    }

    /// Snapshot of what has been consumed so far (search mode: the recorded values; replay
    /// mode: the prefix actually read, padded with zeros where the tape was exhausted).
    pub fn recorded(&self) -> TapeData {
        let t = self.0.lock().unwrap();
        if !t.replay {
            t.data.clone()
        } else {
            let mut d = TapeData::empty();
            for l in 0..NLANES {
                let n = t.pos[l];
                let mut v: Vec<u32> = t.data.lanes[l].iter().take(n).copied().collect();
                v.resize(n, 0);
                d.lanes[l] = v;
            }
            d
        }
    }

    pub fn draws(&self) -> u64 {
        self.0.lock().unwrap().draws
    }
}
