//! Topology T1: a real h2 client and a real h2 server joined by the simulated network.

use crate::cfg::{draw_epcfg, CfgSpace, EpCfg};
use crate::exec::{poll_fn, yield_now, Entity, Exec, ExecCfg, StepOutcome};
use crate::hist::{canon, show_fields, ErrFacts, Fields, Hist, Violation};
use crate::monitor::Monitor;
use crate::net::{FaultCounters, IoCfg, IoFault, Net};
use crate::prog::*;
use crate::tape::{Lane, Tape};
use bytes::Bytes;
use std::collections::BTreeMap;
use std::future::Future;
use std::pin::Pin;
use std::sync::{Arc, Mutex};
use std::task::Poll;

#[derive(Debug, Clone)]
pub struct T1Profile {
    pub name: &'static str,
    /// no fatal faults, cooperative programs: every task must finish (C06)
    pub cooperative: bool,
    pub cfg_space: CfgSpace,
    pub work: WorkSpace,
    pub max_streams: u32,
    /// benign transport behaviours (fragmentation, Pending, back-pressure, delay)
    pub io_noise: bool,
    pub tiny_buffers: bool,
    /// one fatal transport fault / connection drop at a drawn point (C07 style)
    pub fatal_fault: bool,
    pub settings_changes: bool,
    pub pings: bool,
    pub shutdowns: bool,
    pub clock_jumps: bool,
    pub spurious: bool,
    pub inject: bool,
    pub max_steps: u64,
    pub many_clones: bool,
    pub id_exhaustion: bool,
    /// the client takes and reads every push promise
    pub push_adopt_all: bool,
    /// quiescence with unfinished tasks is a violation (off where the application itself may
    /// legitimately hold resources forever, e.g. pushed streams it never takes)
    pub progress_oracle: bool,
    /// hold the last request handle until the run is quiescent with every stream finished,
    /// check the idle state (C19), then let the client close
    pub idle_check: bool,
    pub graceful_only: bool,
}

impl T1Profile {
    pub fn base(name: &'static str) -> T1Profile {
        T1Profile {
            name,
            cooperative: true,
            cfg_space: CfgSpace::all(),
            work: WorkSpace {
                max_body: 200_000,
                big_chunks: false,
                aborts: false,
                trailers: true,
                informational: true,
                pushes: false,
                reserve: true,
                stop_reading: false,
                never_release: false,
                max_header_fields: 6,
                header_budget: 6000,
                wait_reset: false,
                any_code: false,
                deferred_pushes: false,
            },
            max_streams: 6,
            io_noise: true,
            tiny_buffers: true,
            fatal_fault: false,
            settings_changes: false,
            pings: false,
            shutdowns: false,
            clock_jumps: true,
            spurious: false,
            inject: false,
            max_steps: 400_000,
            many_clones: false,
            id_exhaustion: false,
            push_adopt_all: false,
            progress_oracle: true,
            idle_check: true,
            graceful_only: false,
        }
    }
}

#[derive(Debug, Clone)]
pub enum FatalFault {
    Io(usize, IoFault),
    /// cut both directions abruptly at a step
    CutAtStep(u64),
    DropConnAtStep(usize, u64),
    None,
}

#[derive(Debug, Clone)]
pub struct CtlAction {
    pub side: usize,
    pub after_yields: u32,
    pub ctl: Ctl,
}

#[derive(Debug, Clone)]
pub struct T1Plan {
    pub ccfg: EpCfg,
    pub scfg: EpCfg,
    pub net_caps: [(usize, usize); 2],
    pub io: [IoCfg; 2],
    pub exec: ExecCfg,
    pub cprogs: Vec<ClientStreamProg>,
    pub sprogs: Vec<ServerStreamProg>,
    pub fatal: FatalFault,
    pub actions: Vec<CtlAction>,
    pub pings: [u32; 2],
    /// Some(g): g yields between user pings instead of the default ramp
    pub ping_gap: Option<u32>,
    pub hold_main_sr: u32,
    pub accept_delay: u32,
}

fn draw_iocfg(t: &Tape, noise: bool) -> IoCfg {
    if !noise {
        return IoCfg::benign();
    }
    let lvl: &[u32] = &[0, 10, 50, 100];
    IoCfg {
        frag_read: *t.pick(Lane::Cfg, lvl),
        frag_write: *t.pick(Lane::Cfg, lvl),
        pend_read: *t.pick(Lane::Cfg, &[0u32, 5, 25]),
        pend_write: *t.pick(Lane::Cfg, &[0u32, 5, 25]),
        pend_flush: *t.pick(Lane::Cfg, &[0u32, 10, 30]),
        pend_shutdown: *t.pick(Lane::Cfg, &[0u32, 30]),
        vectored: t.chance(Lane::Cfg, 1, 2),
        pend_write_alt: t.chance(Lane::Cfg, 1, 6),
    }
}

pub fn draw_plan(t: &Tape, p: &T1Profile) -> T1Plan {
    let mut ccfg = draw_epcfg(t, &p.cfg_space);
    let mut scfg = draw_epcfg(t, &p.cfg_space);
    scfg.initial_max_send_streams = None;
    if p.cooperative {
        // a limit of 0 that is never raised is a legitimate block, not generated here
        if ccfg.max_concurrent_streams == Some(0) {
            ccfg.max_concurrent_streams = Some(1);
        }
    }
    if !p.work.pushes {
        ccfg.enable_push = *t.pick(Lane::Cfg, &[None, Some(false)]);
    } else {
        ccfg.enable_push = *t.pick(Lane::Cfg, &[None, Some(true), Some(false)]);
    }
    if p.id_exhaustion {
        ccfg.initial_stream_id = Some(*t.pick(Lane::Cfg, &[0x7fff_fff9u32, 0x7fff_ffff, 0x7fff_fffd]));
    }
    let caps: &[usize] = if p.tiny_buffers { &[1 << 20, 65_536, 4096, 300, 17, 1] } else { &[1 << 20, 65_536] };
    let net_caps = [
        (*t.pick(Lane::Cfg, caps), *t.pick(Lane::Cfg, caps)),
        (*t.pick(Lane::Cfg, caps), *t.pick(Lane::Cfg, caps)),
    ];
    let io = [draw_iocfg(t, p.io_noise), draw_iocfg(t, p.io_noise)];
    let mut exec = ExecCfg::default();
    exec.max_steps = p.max_steps;
    exec.link_frag_pct = if p.io_noise { *t.pick(Lane::Cfg, &[0u32, 20, 80]) } else { 0 };
    exec.clock_jump_pct = if p.clock_jumps { *t.pick(Lane::Cfg, &[0u32, 1, 10]) } else { 0 };
    exec.spurious_pct = if p.spurious { *t.pick(Lane::Cfg, &[0u32, 2, 10]) } else { 0 };
    exec.inject_pct = if p.inject { *t.pick(Lane::Cfg, &[20u32, 5, 50, 90]) } else { 0 };
    let mut actions = Vec::new();
    if p.settings_changes {
        let k = t.draw(Lane::Work, 4);
        for _ in 0..k {
            let side = t.draw(Lane::Work, 2) as usize;
            let after = *t.pick(Lane::Work, &[0u32, 1, 5, 20, 100, 400]);
            let ctl = match t.draw(Lane::Work, 3) {
                0 => Ctl::SetIws(*t.pick(Lane::Work, &[65_535u32, 0, 1, 100, 16_384, 1 << 20, (1u32 << 31) - 1, 30_000])),
                1 => Ctl::SetTarget(*t.pick(Lane::Work, &[65_535u32, 100, 16_384, 1 << 20, (1u32 << 31) - 1, 70_000])),
                _ => Ctl::SetIws(*t.pick(Lane::Work, &[1000u32, 10, 200_000])),
            };
            actions.push(CtlAction { side, after_yields: after, ctl });
        }
    }
    // A cooperative application that configured a zero window eventually raises it.
    for side in 0..2 {
        let cfg = if side == 0 { &ccfg } else { &scfg };
        let mut last_iws = cfg.iws();
        for a in actions.iter().filter(|a| a.side == side) {
            if let Ctl::SetIws(v) = a.ctl {
                last_iws = v;
            }
        }
        if last_iws == 0 {
            actions.push(CtlAction { side, after_yields: 500, ctl: Ctl::SetIws(*t.pick(Lane::Work, &[65_535u32, 1, 1000])) });
        }
    }
    // The smallest receive window a side will ever advertise bounds how much data is worth
    // sending to it (one window per round trip), as does the sender's buffer limit.
    let wmin = |cfg: &EpCfg, side: usize| -> usize {
        let mut w = cfg.iws().min(cfg.conn_target().max(1)) as usize;
        for a in actions.iter().filter(|a| a.side == side) {
            match a.ctl {
                Ctl::SetIws(v) => w = w.min(v.max(1) as usize),
                Ctl::SetTarget(v) => w = w.min(v.max(1) as usize),
                _ => {}
            }
        }
        w.max(1)
    };
    let sbuf = |cfg: &EpCfg| cfg.max_send_buffer_size.unwrap_or(400 << 10);
    let req_max = p.work.max_body.min(wmin(&scfg, 1) * 120 + 64).min(sbuf(&ccfg) * 1500 + 64);
    let resp_max = p.work.max_body.min(wmin(&ccfg, 0) * 120 + 64).min(sbuf(&scfg) * 1500 + 64);
    let n = 1 + t.draw(Lane::Work, p.max_streams) as usize;
    let mut cprogs = Vec::new();
    let mut cws = p.work;
    cws.max_body = req_max;
    let mut sws = p.work;
    sws.max_body = resp_max;
    for i in 0..n {
        cprogs.push(gen_client_prog(t, i, &cws, scfg.iws(), scfg.mfs()));
    }
    if p.push_adopt_all {
        for c in cprogs.iter_mut() {
            c.take_pushes = true;
            c.drop_response_future = false;
        }
    }
    let mut sprogs = Vec::new();
    for _ in 0..n {
        sprogs.push(gen_server_prog(t, &sws, ccfg.iws(), ccfg.mfs()));
    }
    if p.cooperative {
        // Legal-traffic profiles stay inside the receiver's configured defences: the
        // tiny-DATA budget is configured off and fewer than MAX_RECV_EMPTY_DATA_FRAMES (100)
        // empty non-final DATA frames are sent per direction over the connection's life.
        // (Crossing a configured quota is a configured GOAWAY, not a penalty; C18 covers it.)
        ccfg.data_frame_budget = Some(usize::MAX / 4);
        scfg.data_frame_budget = Some(usize::MAX / 4);
        // likewise the lifetime quota of library-initiated resets (each late frame on a
        // forgotten stream is answered with one) is configured off
        ccfg.max_local_error_reset_streams = Some(None);
        scfg.max_local_error_reset_streams = Some(None);
        let mut left = 80usize;
        for c in cprogs.iter_mut() {
            for ch in c.body.chunks.iter_mut() {
                if ch.len == 0 {
                    if left == 0 {
                        ch.len = 1;
                    } else {
                        left -= 1;
                    }
                }
            }
        }
        let mut left = 80usize;
        for c in sprogs.iter_mut() {
            for b in std::iter::once(&mut c.body).chain(c.pushes.iter_mut().map(|p| &mut p.body)) {
                for ch in b.chunks.iter_mut() {
                    if ch.len == 0 {
                        if left == 0 {
                            ch.len = 1;
                        } else {
                            left -= 1;
                        }
                    }
                }
            }
        }
    }
    // keep tiny transport buffers for small workloads only: the number of scheduler steps
    // grows with bytes / buffer size
    let total: usize = cprogs.iter().map(|c| c.body.total() + c.headers.iter().map(|(n, v)| n.len() + v.len()).sum::<usize>()).sum::<usize>()
        + sprogs
            .iter()
            .map(|c| c.body.total() + c.headers.iter().map(|(n, v)| n.len() + v.len()).sum::<usize>() + c.pushes.iter().map(|p| p.body.total() + 200).sum::<usize>())
            .sum::<usize>();
    let floor = total / 1500 + 1;
    let mut net_caps = net_caps;
    for c in net_caps.iter_mut() {
        c.0 = c.0.max(floor);
        c.1 = c.1.max(floor);
    }
    if p.shutdowns && t.chance(Lane::Work, 3, 4) {
        let after = *t.pick(Lane::Work, &[0u32, 1, 5, 20, 100, 400]);
        let ctl = if !p.graceful_only && t.chance(Lane::Work, 1, 3) { Ctl::Abrupt(gen_code(t, true)) } else { Ctl::Graceful };
        actions.push(CtlAction { side: 1, after_yields: after, ctl });
    }
    let mut pings = if p.pings { [t.draw(Lane::Work, 4), t.draw(Lane::Work, 4)] } else { [0, 0] };
    // keep-alive style: user pings throughout the run, so that shutdown handshakes overlap them
    let ping_gap = if p.graceful_only && t.chance(Lane::Work, 2, 3) {
        pings[1] = 20 + t.draw(Lane::Work, 60);
        Some(*t.pick(Lane::Work, &[0u32, 0, 2, 10, 40]))
    } else {
        None
    };
    let fatal = if p.fatal_fault {
        draw_fatal(t)
    } else {
        FatalFault::None
    };
    T1Plan {
        ccfg,
        scfg,
        net_caps,
        io,
        exec,
        cprogs,
        sprogs,
        fatal,
        actions,
        pings,
        ping_gap,
        hold_main_sr: *t.pick(Lane::Work, &[0u32, 1, 10, 100]),
        accept_delay: *t.pick(Lane::Work, &[0u32, 0, 1, 5]),
    }
}

pub fn draw_fatal(t: &Tape) -> FatalFault {
    use std::io::ErrorKind::*;
    let kinds = [ConnectionReset, BrokenPipe, TimedOut, UnexpectedEof, Other];
    let side = t.draw(Lane::Fault, 2) as usize;
    let off_class = t.draw(Lane::Fault, 5);
    let at: u64 = match off_class {
        0 => t.draw(Lane::Fault, 64) as u64,
        1 => t.draw(Lane::Fault, 300) as u64,
        2 => t.draw(Lane::Fault, 2000) as u64,
        3 => t.draw(Lane::Fault, 20_000) as u64,
        _ => t.draw(Lane::Fault, 200_000) as u64,
    };
    match t.draw(Lane::Fault, 9) {
        0 => FatalFault::Io(side, IoFault::ReadEof { at }),
        1 => FatalFault::Io(side, IoFault::ReadError { at, kind: *t.pick(Lane::Fault, &kinds) }),
        2 => FatalFault::Io(side, IoFault::WriteError { at, kind: *t.pick(Lane::Fault, &kinds) }),
        3 => FatalFault::Io(side, IoFault::WriteZero { at }),
        4 => FatalFault::Io(side, IoFault::FlushError { call: t.draw(Lane::Fault, 40) as u64, kind: *t.pick(Lane::Fault, &kinds) }),
        5 => FatalFault::Io(side, IoFault::ShutdownError { kind: *t.pick(Lane::Fault, &kinds) }),
        6 => FatalFault::CutAtStep(at / 4),
        7 => FatalFault::DropConnAtStep(side, at / 4),
        _ => FatalFault::Io(side, IoFault::ReadError { at, kind: std::io::ErrorKind::Interrupted }),
    }
}

#[derive(Default)]
pub struct Shared {
    pub ping: [Option<h2::PingPong>; 2],
    pub stats: [Option<h2::verif::StatsHandle>; 2],
    pub codec: [h2::verif::CodecStats; 2],
    pub conn_task_waker: [Option<std::task::Waker>; 2],
    pub conn_done: [bool; 2],
    pub accepted: u32,
    pub idle_gate: Option<crate::exec::Gate>,
    /// (T2 exhaustion probe) probe readers hold what they read until this opens
    pub probe_gate: Option<crate::exec::Gate>,
    /// (C16) a request handle kept for the capacity probe stream
    pub probe_sr: Option<h2::client::SendRequest<Bytes>>,
    pub cap_probe: Option<CapProbe>,
}

#[derive(Debug, Clone)]
pub struct CapProbe {
    pub sid: u32,
    pub capacity: usize,
    pub step: u64,
}

pub type SharedRef = Arc<Mutex<Shared>>;

fn record_conn_result(ctx: &Ctx, side: usize, r: Result<(), h2::Error>) {
    let v = match &r {
        Ok(()) => Ok(()),
        Err(e) => Err(ErrFacts::of(e)),
    };
    ctx.hist.with(|h| h.conn_results[side] = Some(v));
    ctx.hist.log(side as u8, 0, || format!("connection finished: {:?}", r.as_ref().map_err(|e| e.to_string())));
}

/// Returns (drop the connection now, retry this command later).
fn apply_ctl_client(conn: &mut h2::client::Connection<crate::net::SimIo, Bytes>, c: &Ctl, ctx: &Ctx) -> (bool, bool) {
    match c {
        Ctl::SetTarget(v) => conn.set_target_window_size(*v),
        Ctl::SetIws(v) => {
            if let Err(e) = conn.set_initial_window_size(*v) {
                ctx.hist.log(0, 0, || format!("set_initial_window_size({}) -> Err({})", v, e));
                // the previous SETTINGS is still unacknowledged: a cooperative application retries
                return (false, true);
            }
        }
        Ctl::DropConn => return (true, false),
        _ => {}
    }
    ctx.hist.log(0, 0, || format!("ctl {:?}", c));
    (false, false)
}

fn apply_ctl_server(conn: &mut h2::server::Connection<crate::net::SimIo, Bytes>, c: &Ctl, ctx: &Ctx) -> (bool, bool) {
    match c {
        Ctl::SetTarget(v) => conn.set_target_window_size(*v),
        Ctl::SetIws(v) => {
            if let Err(e) = conn.set_initial_window_size(*v) {
                ctx.hist.log(1, 0, || format!("set_initial_window_size({}) -> Err({})", v, e));
                return (false, true);
            }
        }
        Ctl::EnableConnect => {
            let _ = conn.enable_connect_protocol();
        }
        Ctl::Graceful => {
            ctx.hist.with(|h| {
                let st = h.step;
                h.graceful.push((1, st));
            });
            conn.graceful_shutdown()
        }
        Ctl::Abrupt(code) => {
            ctx.hist.with(|h| {
                let st = h.step;
                h.abrupt.push((1, *code, st));
            });
            conn.abrupt_shutdown(h2::Reason::from(*code))
        }
        Ctl::DropConn => return (true, false),
    }
    ctx.hist.log(1, 0, || format!("ctl {:?}", c));
    (false, false)
}

pub async fn client_main(ctx: Ctx, io: crate::net::SimIo, plan: Arc<T1Plan>, ctl: CtlQ, shared: SharedRef) {
    ctx.status.set("c:conn", "handshake");
    let hs = plan.ccfg.client_builder().handshake::<_, Bytes>(io);
    let (sr, mut conn) = match hs.await {
        Ok(x) => x,
        Err(e) => {
            record_conn_result(&ctx, 0, Err(e));
            shared.lock().unwrap().conn_done[0] = true;
            ctx.status.set("c:conn", "done");
            return;
        }
    };
    ctx.tick();
    {
        let mut sh = shared.lock().unwrap();
        sh.ping[0] = conn.ping_pong();
        sh.stats[0] = Some(conn.verif_stats_handle());
    }
    if shared.lock().unwrap().idle_gate.is_some() {
        shared.lock().unwrap().probe_sr = Some(sr.clone());
    }
    // stream tasks
    for prog in plan.cprogs.iter() {
        let n = format!("c:req{}", prog.idx);
        ctx.spawner.spawn(n.clone(), client_stream(ctx.clone(), n, sr.clone(), prog.clone()));
    }
    if plan.pings[0] > 0 {
        ctx.spawner.spawn("c:ping", ping_task(ctx.clone(), "c:ping".into(), 0, shared.clone(), plan.pings[0], plan.ping_gap));
    }
    // the main handle is dropped by a separate task after a delay
    let hold = plan.hold_main_sr;
    let gate = shared.lock().unwrap().idle_gate.clone();
    let st = ctx.status.clone();
    ctx.spawner.spawn("c:main-handle", async move {
        for _ in 0..hold {
            yield_now().await;
        }
        if let Some(g) = gate {
            st.set("c:main-handle", "idle-gate");
            g.wait().await;
        }
        drop(sr);
    });
    ctx.status.set("c:conn", "poll");
    let c2 = ctx.clone();
    let sh2 = shared.clone();
    let mut retry: Vec<Ctl> = Vec::new();
    let r = poll_fn(move |cx| {
        let mut cmds = std::mem::take(&mut retry);
        cmds.extend(ctl.register_and_drain(cx.waker()));
        for c in cmds {
            if !retry.is_empty() {
                // keep the application's order of settings changes
                retry.push(c);
                continue;
            }
            let (dropit, again) = apply_ctl_client(&mut conn, &c, &c2);
            if dropit {
                return Poll::Ready(None);
            }
            if again {
                retry.push(c);
            }
        }
        let r = Pin::new(&mut conn).poll(cx);
        sh2.lock().unwrap().codec[0] = conn.verif_codec_stats();
        if r.is_pending() && !retry.is_empty() {
            // the poll may have processed the SETTINGS ACK the retry was waiting for
            let c = retry[0].clone();
            let (_, again) = apply_ctl_client(&mut conn, &c, &c2);
            if !again {
                retry.remove(0);
                cx.waker().wake_by_ref();
            }
        }
        r.map(Some)
    })
    .await;
    ctx.tick();
    match r {
        Some(r) => record_conn_result(&ctx, 0, r),
        None => ctx.hist.log(0, 0, || "connection dropped by application".to_string()),
    }
    shared.lock().unwrap().conn_done[0] = true;
    ctx.status.set("c:conn", "done");
}

pub async fn server_main(ctx: Ctx, io: crate::net::SimIo, plan: Arc<T1Plan>, ctl: CtlQ, shared: SharedRef) {
    ctx.status.set("s:conn", "handshake");
    let hs = plan.scfg.server_builder().handshake::<_, Bytes>(io);
    let mut conn = match hs.await {
        Ok(x) => x,
        Err(e) => {
            record_conn_result(&ctx, 1, Err(e));
            shared.lock().unwrap().conn_done[1] = true;
            ctx.status.set("s:conn", "done");
            return;
        }
    };
    ctx.tick();
    {
        let mut sh = shared.lock().unwrap();
        sh.ping[1] = conn.ping_pong();
        sh.stats[1] = Some(conn.verif_stats_handle());
    }
    if plan.pings[1] > 0 {
        ctx.spawner.spawn("s:ping", ping_task(ctx.clone(), "s:ping".into(), 1, shared.clone(), plan.pings[1], plan.ping_gap));
    }
    ctx.status.set("s:conn", "poll_accept");
    let c2 = ctx.clone();
    let sh2 = shared.clone();
    let mut delay_left = 0u32;
    let accept_delay = plan.accept_delay;
    let plan2 = plan.clone();
    let mut retry: Vec<Ctl> = Vec::new();
    let r: Option<Result<(), h2::Error>> = poll_fn(move |cx| {
        let mut cmds = std::mem::take(&mut retry);
        cmds.extend(ctl.register_and_drain(cx.waker()));
        for c in cmds {
            if !retry.is_empty() {
                // keep the application's order of settings changes
                retry.push(c);
                continue;
            }
            let (dropit, again) = apply_ctl_server(&mut conn, &c, &c2);
            if dropit {
                return Poll::Ready(None);
            }
            if again {
                retry.push(c);
            }
        }
        loop {
            if delay_left > 0 {
                // accept slowly: keep driving the connection without taking streams. Large
                // values mean "never": the task is then only polled when h2 wakes it.
                let never = accept_delay >= 10_000;
                if !never {
                    delay_left -= 1;
                }
                let r = conn.poll_closed(cx);
                sh2.lock().unwrap().codec[1] = conn.verif_codec_stats();
                match r {
                    Poll::Ready(r) => return Poll::Ready(Some(r)),
                    Poll::Pending => {
                        if !never {
                            cx.waker().wake_by_ref();
                        }
                        return Poll::Pending;
                    }
                }
            }
            let r = conn.poll_accept(cx);
            sh2.lock().unwrap().codec[1] = conn.verif_codec_stats();
            if r.is_pending() && !retry.is_empty() {
                let c = retry[0].clone();
                let (_, again) = apply_ctl_server(&mut conn, &c, &c2);
                if !again {
                    retry.remove(0);
                    cx.waker().wake_by_ref();
                }
            }
            match r {
                Poll::Ready(Some(Ok((req, respond)))) => {
                    c2.tick();
                    let i = {
                        let mut sh = sh2.lock().unwrap();
                        sh.accepted += 1;
                        sh.accepted as usize - 1
                    };
                    let mut prog = plan2.sprogs[i % plan2.sprogs.len()].clone();
                    if req.uri().path().starts_with("/capprobe") {
                        // (C16 probe) a plain exchange: no pushes, no interim responses
                        prog.pushes.clear();
                        prog.informational.clear();
                        prog.refuse = None;
                        prog.drop_without_response = false;
                        prog.read.stop_after = None;
                        prog.body.abort = Abort::None;
                        prog.body.wait_reset = false;
                    }
                    if req.uri().path().starts_with("/hold") {
                        // (T2) read but never release: the stream window is never replenished
                        prog.read = ReadPlan { release: Release::Never, stop_after: None, probe_end_stream: false, skip_trailers: false };
                        prog.respond_delay = 0;
                        prog.refuse = None;
                        prog.drop_without_response = false;
                    }
                    if req.uri().path().starts_with("/probe") {
                        // window exhaustion probe (T2): hold everything until the gate opens,
                        // then release it all at once
                        let gate = sh2.lock().unwrap().probe_gate.clone().unwrap_or_default();
                        let sid = respond.stream_id().as_u32();
                        let n = format!("s:s{}:probe", sid);
                        c2.spawner.spawn(n.clone(), probe_stream(c2.clone(), n, req, respond, gate));
                        delay_left = accept_delay;
                        continue;
                    }
                    let sid = respond.stream_id().as_u32();
                    let n = format!("s:s{}:respond", sid);
                    c2.spawner.spawn(n.clone(), server_stream(c2.clone(), n, req, respond, prog));
                    delay_left = accept_delay;
                    continue;
                }
                Poll::Ready(Some(Err(e))) => return Poll::Ready(Some(Err(e))),
                Poll::Ready(None) => return Poll::Ready(Some(Ok(()))),
                Poll::Pending => return Poll::Pending,
            }
        }
    })
    .await;
    ctx.tick();
    match r {
        Some(r) => record_conn_result(&ctx, 1, r),
        None => ctx.hist.log(1, 0, || "connection dropped by application".to_string()),
    }
    shared.lock().unwrap().conn_done[1] = true;
    ctx.status.set("s:conn", "done");
}

async fn probe_stream(ctx: Ctx, name: String, req: http::Request<h2::RecvStream>, mut respond: h2::server::SendResponse<Bytes>, gate: crate::exec::Gate) {
    let sid = respond.stream_id().as_u32();
    let head = crate::hist::fields_of_request(&req);
    ctx.hist.dir(sid, 0, |d| {
        d.r_head = Some(head);
        d.r_head_count += 1;
    });
    let mut body = req.into_body();
    let _ = respond.send_response(http::Response::builder().status(200).body(()).unwrap(), true);
    drop(respond);
    let mut held = 0usize;
    let mut released = false;
    let mut off = 0u64;
    loop {
        ctx.status.set(&name, "probe poll_data");
        let item = poll_fn(|cx| {
            if !released && gate.is_open() {
                released = true;
                if held > 0 {
                    let _ = body.flow_control().release_capacity(held);
                    held = 0;
                }
            }
            gate.register(cx.waker());
            body.poll_data(cx)
        })
        .await;
        ctx.tick();
        match item {
            Some(Ok(b)) => {
                let len = b.len();
                let mut bad = None;
                for (i, x) in b.iter().enumerate() {
                    if *x != crate::hist::pat(0, sid, off + i as u64) {
                        bad = Some(off + i as u64);
                        break;
                    }
                }
                off += len as u64;
                ctx.hist.dir(sid, 0, |d| {
                    d.r_body += len as u64;
                    if d.r_body_bad.is_none() {
                        d.r_body_bad = bad;
                    }
                });
                if released {
                    let _ = body.flow_control().release_capacity(len);
                } else {
                    held += len;
                }
            }
            _ => break,
        }
    }
    ctx.status.set(&name, "done");
}

async fn ping_task(ctx: Ctx, name: String, side: usize, shared: SharedRef, n: u32, gap: Option<u32>) {
    let mut pp = match shared.lock().unwrap().ping[side].take() {
        Some(p) => p,
        None => return,
    };
    for i in 0..n {
        for _ in 0..gap.unwrap_or(i * 3) {
            yield_now().await;
        }
        match pp.send_ping(h2::Ping::opaque()) {
            Ok(()) => {
                ctx.tick();
                ctx.status.set(&name, "poll_pong");
                let r = poll_fn(|cx| pp.poll_pong(cx)).await;
                ctx.tick();
                match r {
                    Ok(_) => ctx.hist.probe("user_pong_received"),
                    Err(e) => {
                        ctx.hist.log(side as u8, 0, || format!("poll_pong -> Err({})", e));
                        break;
                    }
                }
            }
            Err(e) => {
                ctx.hist.log(side as u8, 0, || format!("send_ping -> Err({})", e));
                break;
            }
        }
    }
    ctx.status.set(&name, "done");
}

// --------------------------------------------------------------------------------------

#[derive(Debug, Clone)]
pub struct RunOut {
    pub violations: Vec<Violation>,
    pub steps: u64,
    pub sim_ns: u64,
    pub bytes: [u64; 2],
    pub faults: FaultCounters,
    pub probes: BTreeMap<&'static str, u64>,
    pub sched_hash: u64,
    pub work_hash: u64,
    pub log_hash: u64,
    pub states: Vec<u64>,
    pub outcome: String,
    pub streams_done: u32,
    pub sample: Option<serde_json::Value>,
    pub tape: crate::tape::TapeData,
    pub trace_tail: Vec<String>,
    /// tape to use for the determinism recheck when `tape` is not the tape of this whole run
    /// (cut-point sweeps return the tape of the first failing cut)
    pub recheck_tape: Option<crate::tape::TapeData>,
}

pub fn fnv(h: &mut u64, bytes: &[u8]) {
    for b in bytes {
        *h = (*h ^ *b as u64).wrapping_mul(0x100000001b3);
    }
}

fn side_of(name: &str) -> Option<usize> {
    match name.as_bytes().first() {
        Some(b'c') => Some(0),
        Some(b's') => Some(1),
        _ => None,
    }
}

pub struct T1Opts {
    pub want_sample: bool,
    pub keep_log: bool,
    /// replace the plan's fatal fault (cut-point sweeps)
    pub fault_override: Option<FatalFault>,
}

pub fn run_t1(profile: &T1Profile, tape: Tape, opts: &T1Opts) -> RunOut {
    h2::verif::reset_thread_state();
    h2::verif::enable_events(true);
    let mut plan0 = draw_plan(&tape, profile);
    if let Some(f) = &opts.fault_override {
        plan0.fatal = f.clone();
    }
    let plan = Arc::new(plan0);
    // The two prefaces (24-byte magic + SETTINGS each way) are written before either side
    // reads; a transport that cannot hold them deadlocks any HTTP/2 implementation, so the
    // drawn (possibly tiny) buffer sizes take effect once both handshakes are done.
    let hs_floor = |c: (usize, usize)| (c.0.max(128), c.1.max(128));
    let net = Net::new(hs_floor(plan.net_caps[0]), hs_floor(plan.net_caps[1]));
    let mut caps_applied = false;
    let mut exec = Exec::new(tape.clone(), Some(net.clone()), plan.exec.clone());
    let hist = Hist::new(opts.keep_log || opts.want_sample);
    let ctx = Ctx { hist: hist.clone(), spawner: exec.spawner.clone(), status: exec.status.clone(), progress: exec.api_progress.clone(), coop: profile.cooperative };
    let shared: SharedRef = Arc::new(Mutex::new(Shared::default()));
    let ctls = [CtlQ::default(), CtlQ::default()];
    let idle_gate = crate::exec::Gate::new();
    if profile.idle_check {
        shared.lock().unwrap().idle_gate = Some(idle_gate.clone());
    }
    let mut idle_checked = false;
    let mut cap_phase = 0u8;
    let cap_gate = crate::exec::Gate::new();
    let mut idle_violations: Vec<Violation> = Vec::new();
    let mut cap_violations: Vec<Violation> = Vec::new();
    let mut fatal_fired = false;
    if let FatalFault::Io(side, f) = &plan.fatal {
        net.add_fault(*side, *f);
    }
    let cio = net.io(0, plan.io[0].clone(), tape.clone());
    let sio = net.io(1, plan.io[1].clone(), tape.clone());
    let conn_ids = [
        exec.spawn("c:conn", client_main(ctx.clone(), cio, plan.clone(), ctls[0].clone(), shared.clone())),
        exec.spawn("s:conn", server_main(ctx.clone(), sio, plan.clone(), ctls[1].clone(), shared.clone())),
    ];
    for side in 0..2 {
        // one control actor per side performs that side's actions in list order
        let acts: Vec<CtlAction> = plan.actions.iter().filter(|a| a.side == side).cloned().collect();
        if acts.is_empty() {
            continue;
        }
        let q = ctls[side].clone();
        let nm = format!("{}:ctl", if side == 0 { "c" } else { "s" });
        exec.spawn(nm, async move {
            for a in acts {
                for _ in 0..a.after_yields {
                    yield_now().await;
                }
                q.send(a.ctl.clone());
            }
        });
    }
    let mut mon = Monitor::new([true, true]);
    mon.ep[0].max_conn_target = plan.ccfg.conn_target().max(65_535) as i64;
    mon.ep[1].max_conn_target = plan.scfg.conn_target().max(65_535) as i64;
    for a in &plan.actions {
        if let Ctl::SetTarget(v) = a.ctl {
            let m = &mut mon.ep[a.side].max_conn_target;
            *m = (*m).max(v as i64);
        }
    }
    let mut evbuf: Vec<h2::verif::Ev> = Vec::new();
    let mut states: std::collections::BTreeSet<u64> = Default::default();
    let mut problems: Vec<String> = Vec::new();
    let mut resets_seen = 0usize;

    // a run that is still delivering body bytes when the step budget ends is slow, not stuck
    let budget_mark_step = exec.cfg.max_steps / 4 * 3;
    let mut budget_mark_bytes = 0u64;
    let outcome = loop {
        // scheduled fatal faults keyed by step
        match &plan.fatal {
            FatalFault::CutAtStep(s) if !fatal_fired && exec.step >= *s => {
                fatal_fired = true;
                net.cut(0);
                net.cut(1);
                net.lock().faults.hit("eof_clean");
            }
            FatalFault::DropConnAtStep(side, s) if !fatal_fired && exec.step >= *s => {
                fatal_fired = true;
                if !exec.task_done(conn_ids[*side]) {
                    exec.kill_task(conn_ids[*side]);
                    exec.faults.hit("drop_connection");
                    shared.lock().unwrap().conn_done[*side] = true;
                }
            }
            _ => {}
        }
        if !caps_applied {
            let sh = shared.lock().unwrap();
            if sh.stats[0].is_some() && sh.stats[1].is_some() {
                caps_applied = true;
                net.set_caps(0, plan.net_caps[0].0, plan.net_caps[0].1);
                net.set_caps(1, plan.net_caps[1].0, plan.net_caps[1].1);
            }
        }
        if exec.step == budget_mark_step {
            budget_mark_bytes = hist.app_bytes();
        }
        let o = exec.step_once();
        let ent = match o {
            StepOutcome::Ran(e) => e,
            StepOutcome::Quiescent if profile.idle_check && !idle_gate.is_open() => {
                // phase gate: everything the programs wanted to do is done (or parked)
                let unfinished = exec.unfinished();
                let only_expected = unfinished.iter().all(|(n, _)| n == "c:conn" || n == "s:conn" || n == "c:main-handle");
                if only_expected && unfinished.iter().any(|(n, _)| n == "c:main-handle") && cap_phase == 0 {
                    idle_checked = true;
                    check_idle_state(profile, &plan, &shared, &mon, &hist, &mut idle_violations, exec.step);
                    // C15: a graceful shutdown that has nothing left to drain closes the
                    // connection by itself (nobody has dropped a connection or the last
                    // request handle yet: the server can only be gone because it closed)
                    {
                        let (graceful, abrupt) = hist.with(|h| (h.graceful.clone(), h.abrupt.clone()));
                        let server_done = shared.lock().unwrap().conn_done[1];
                        let blocked = net.writer_blocked(0) || net.writer_blocked(1);
                        if !graceful.is_empty() && abrupt.is_empty() && !blocked {
                            hist.probe("graceful_drained_close_checked");
                            if !server_done {
                                let cause = match (leak_cause(&mon, 0), leak_cause(&mon, 1)) { ("other", b) => b, (a, _) => a };
                                idle_violations.push(Violation::new(
                                    "C15",
                                    "graceful-shutdown-not-closed-when-drained",
                                    if cause == "other" { String::new() } else { format!("{}:", cause) },
                                    format!("server called graceful_shutdown at step {}; every stream has finished and the system is quiescent at step {}, but the server connection is still open (GOAWAYs sent: {:?})", graceful[0].1, exec.step, mon.ep[1].goaway_out),
                                    exec.step,
                                ));
                            }
                        }
                    }
                    // C16 (iii): a fresh stream asks for everything
                    let sr = shared.lock().unwrap().probe_sr.take();
                    let both_alive = { let sh = shared.lock().unwrap(); !sh.conn_done[0] && !sh.conn_done[1] };
                    if let (Some(sr), true) = (sr, both_alive && profile.cooperative) {
                        cap_phase = 1;
                        exec.spawn("c:capprobe", capacity_probe(ctx.clone(), sr, shared.clone(), cap_gate.clone()));
                        continue;
                    }
                }
                if cap_phase == 1 {
                    // quiescent with the reservation outstanding: read what was assigned
                    cap_phase = 2;
                    check_capacity_probe(&plan, &shared, &mon, &mut idle_violations, exec.step, false);
                    cap_gate.open();
                    continue;
                }
                shared.lock().unwrap().probe_sr = None;
                idle_gate.open();
                continue;
            }
            other => break other,
        };
        hist.with(|h| h.step = exec.step);
        mon.step = exec.step;
        mon.now_ns = exec.now_ns;
        if let Entity::Task(id) = ent {
            evbuf.clear();
            h2::verif::take_events(&mut evbuf);
            if !evbuf.is_empty() {
                let step_now = exec.step;
                crate::exec::route_events(&evbuf, side_of(&exec.tasks[id].name), |side, e| mon.push_events(side, &[e], step_now));
            }
            let pr = h2::verif::take_problems();
            if !pr.is_empty() {
                problems.extend(pr);
            }
        }
        // forward application resets / handle drops to the monitor
        hist.with(|h| {
            while resets_seen < h.resets.len() {
                let r = &h.resets[resets_seen];
                mon.note_app_reset(r.side as usize, r.sid, r.step);
                resets_seen += 1;
            }
        });
        {
            let n = net.lock();
            mon.feed_taps(&n.dirs[0].tap, &n.dirs[1].tap);
        }
        mon.advance();
        // abstract state sample
        if exec.step % 8 == 0 {
            let mut h: u64 = 0xcbf29ce484222325;
            let sh = shared.lock().unwrap();
            for side in 0..2 {
                if let Some(st) = &sh.stats[side] {
                    let s = st.snapshot();
                    // C16 (ii): capacity assigned to streams is backed by the windows
                    if cap_violations.is_empty() {
                        let total: i64 = s.streams.iter().map(|x| (x.send_available as i64).max(0)).sum();
                        let who = if side == 0 { "client" } else { "server" };
                        if total + (s.conn_send_available as i64).max(0) > (s.conn_send_window as i64).max(0) && s.conn_send_window >= 0 {
                            cap_violations.push(Violation::new("C16", "assigned-exceeds-connection-window", who, format!("{}: capacity assigned to streams {} + unassigned {} exceeds the connection send window {}", who, total, s.conn_send_available, s.conn_send_window), exec.step));
                        }
                        for x in &s.streams {
                            if x.send_available > 0 && x.send_available > x.send_window.max(0) {
                                cap_violations.push(Violation::new("C16", "assigned-exceeds-stream-window", who, format!("{}: stream {} has {} bytes of capacity assigned but its send window is {}", who, x.id, x.send_available, x.send_window), exec.step));
                                break;
                            }
                        }
                        // the endpoint's windows agree with the wire accountant when nothing is in flight
                        let e = &mon.ep[side];
                        if e.events.is_empty() && s.conn_send_window as i64 != e.conn_send_win && !sh.conn_done[side] && !s.has_conn_error {
                            cap_violations.push(Violation::new("C02", "connection-send-window-disagrees-with-wire", who, format!("{}: internal connection send window {} but the wire accountant says {}", who, s.conn_send_window, e.conn_send_win), exec.step));
                        }
                        // ... and so do the windows it believes to have advertised (C03) and
                        // each stream's send window (C02): books == wire
                        if e.events.is_empty() && !sh.conn_done[side] && !s.has_conn_error {
                            let adv = 65_535 + e.conn_wu_out - e.conn_data_in;
                            if s.conn_recv_window as i64 != adv {
                                cap_violations.push(Violation::new("C03", "connection-window-books-disagree-with-wire", who, format!("{} believes it has advertised a connection window of {} but the wire says 65535 + WINDOW_UPDATE {} - DATA {} = {}", who, s.conn_recv_window, e.conn_wu_out, e.conn_data_in, adv), exec.step));
                            }
                            for x in &s.streams {
                                let w = match e.streams.get(&x.id) {
                                    Some(w) => w,
                                    None => continue,
                                };
                                if w.rst_out > 0 || w.rst_in || x.state == 6 {
                                    continue;
                                }
                                // once the application has dropped its receive handle h2 stops
                                // charging the stream window (only the connection's): nothing
                                // reads that window any more
                                let reader_gone = hist.with(|h| h.streams.get(&x.id).map(|r| r.dirs[1 - side].r_stopped).unwrap_or(false));
                                if matches!(x.state, 2 | 3 | 4) && !w.end_in && !reader_gone {
                                    let adv_s = e.own_acked.iws as i64 + w.wu_out - w.data_in;
                                    // C14: the difference is exactly a SETTINGS_INITIAL_WINDOW_SIZE
                                    // change E has sent and the peer has not acknowledged yet
                                    let diff = x.recv_window as i64 - adv_s;
                                    if diff != 0 {
                                        for pending in e.own_sent.iter() {
                                            for (k, v) in pending {
                                                if *k == crate::wire::S_INITIAL_WINDOW_SIZE && *v as i64 - e.own_acked.iws as i64 == diff {
                                                    cap_violations.push(Violation::new("C14", "local-settings-enforced-before-ack", "", format!("{}: stream {} is accounted with INITIAL_WINDOW_SIZE {} although the peer has only acknowledged {}", who, x.id, v, e.own_acked.iws), exec.step));
                                                }
                                            }
                                        }
                                    }
                                    if x.recv_window as i64 != adv_s {
                                        cap_violations.push(Violation::new("C03", "stream-window-books-disagree-with-wire", if w.reserved { "pushed" } else { "" }, format!("{}: stream {} (state {}): believes the peer may still send {} but what it advertised is acknowledged INITIAL_WINDOW_SIZE {} + WINDOW_UPDATE {} - DATA {} = {}", who, x.id, x.state, x.recv_window, e.own_acked.iws, w.wu_out, w.data_in, adv_s), exec.step));
                                        break;
                                    }
                                }
                                if matches!(x.state, 1 | 3 | 5) && !w.end_out && w.hdr_out {
                                    if x.send_window as i64 != w.send_win {
                                        cap_violations.push(Violation::new("C02", "stream-send-window-disagrees-with-wire", if w.reserved { "pushed" } else { "" }, format!("{}: stream {} (state {}): internal send window {} but the peer granted {} (wire accountant)", who, x.id, x.state, x.send_window, w.send_win), exec.step));
                                        break;
                                    }
                                }
                            }
                        }
                    }
                    fnv(&mut h, &[s.num_send_streams as u8, s.num_recv_streams as u8, (s.conn_send_window > 0) as u8, (s.conn_recv_window > 0) as u8, s.has_conn_error as u8]);
                    for st in &s.streams {
                        fnv(&mut h, &[st.state, st.is_pending_send as u8, st.is_pending_open as u8, st.is_pending_send_capacity as u8, (st.send_window > 0) as u8, (st.ref_count.min(3)) as u8, st.is_pending_accept as u8]);
                    }
                }
                fnv(&mut h, &[(sh.codec[side].write_buffer_len > 0) as u8, sh.codec[side].write_has_next as u8, (sh.codec[side].partial_header_len > 0) as u8]);
            }
            states.insert(h);
        }
    };

    // ---------------- final oracles
    let mut violations: Vec<Violation> = Vec::new();
    let fatal_cfg = !matches!(plan.fatal, FatalFault::None);
    let step = exec.step;
    for p in &exec.panics {
        violations.push(Violation::new("C08", "panic", p.msg.split(" at ").last().unwrap_or("").to_string(), format!("task {} panicked: {}", p.task, p.msg), p.step));
    }
    for p in &problems {
        violations.push(Violation::new("C20", "lock-discipline", p.split(':').next().unwrap_or("").to_string(), p.clone(), step));
    }
    match &outcome {
        StepOutcome::Livelock(t) => violations.push(Violation::new("C08", "busy-loop", t.split(':').next().unwrap_or("").to_string(), format!("no transport or API progress for {} steps; last task {}", exec.cfg.livelock_limit, t), step)),
        StepOutcome::StepBudget => {
            let now = hist.app_bytes();
            if now > budget_mark_bytes {
                hist.probe("step_budget_exhausted_while_delivering");
            } else {
                violations.push(Violation::new("C06", "step-budget", "", format!("run did not finish within {} steps and delivered no body byte during the last quarter of them", exec.cfg.max_steps), step));
            }
        }
        _ => {}
    }
    let mut unfinished = exec.unfinished();
    if !profile.cooperative {
        // Non-cooperative programs may wait on each other for ever while their connection is
        // alive; what must not happen is a handle operation still pending after its
        // connection has ended (C07).
        let done = shared.lock().unwrap().conn_done;
        unfinished.retain(|(n, _)| match side_of(n) {
            Some(sd) => done[sd] && !n.ends_with(":conn"),
            None => false,
        });
    }
    // Both writers blocked by transport back-pressure: the transport is not "accepting
    // bytes", which is outside the precondition of the progress properties.
    let mutual_block = net.writer_blocked(0) && net.writer_blocked(1);
    if mutual_block {
        hist.probe("quiescent_with_both_writers_blocked");
    }
    if matches!(outcome, StepOutcome::Quiescent) && !unfinished.is_empty() && !mutual_block && profile.progress_oracle {
        let mut kinds: Vec<String> = unfinished.iter().map(|(_, s)| s.clone()).collect();
        kinds.sort();
        kinds.dedup();
        let prop = if fatal_cfg || profile.shutdowns { "C07" } else { "C06" };
        let stats_txt = {
            let sh = shared.lock().unwrap();
            let mut s = String::new();
            for side in 0..2 {
                if let Some(st) = &sh.stats[side] {
                    let v = st.snapshot();
                    s.push_str(&format!(
                        " [{} conn_send_win={}/{} conn_recv_win={}/{} streams={:?}]",
                        if side == 0 { "client" } else { "server" },
                        v.conn_send_window,
                        v.conn_send_available,
                        v.conn_recv_window,
                        v.conn_recv_available,
                        v.streams
                            .iter()
                            .map(|x| format!(
                                "id={} st={} linked={} refs={} sendwin={}/{} recvwin={}/{} buffered={} req_cap={} flags[{}{}{}{}{}{}{}]",
                                x.id,
                                x.state,
                                x.is_linked,
                                x.ref_count,
                                x.send_window,
                                x.send_available,
                                x.recv_window,
                                x.recv_available,
                                x.buffered_send_data,
                                x.requested_send_capacity,
                                if x.is_pending_send { "S" } else { "" },
                                if x.is_pending_send_capacity { "C" } else { "" },
                                if x.is_pending_open { "O" } else { "" },
                                if x.is_pending_push { "P" } else { "" },
                                if x.is_pending_accept { "A" } else { "" },
                                if x.is_pending_window_update { "W" } else { "" },
                                if x.is_pending_reset_expiry { "R" } else { "" }
                            ))
                            .collect::<Vec<_>>()
                    ));
                }
            }
            s
        };
        let net_txt = {
            let n = net.lock();
            let sh = shared.lock().unwrap();
            format!(
                " [net c>s inflight={}/{} rbuf={}/{} wblocked={} rwait={}; s>c inflight={}/{} rbuf={}/{} wblocked={} rwait={}] [codec client {:?}] [codec server {:?}]",
                n.dirs[0].inflight.len(), n.dirs[0].inflight_cap, n.dirs[0].rbuf.len(), n.dirs[0].rbuf_cap, n.dirs[0].writer_waker.is_some(), n.dirs[0].reader_waker.is_some(),
                n.dirs[1].inflight.len(), n.dirs[1].inflight_cap, n.dirs[1].rbuf.len(), n.dirs[1].rbuf_cap, n.dirs[1].writer_waker.is_some(), n.dirs[1].reader_waker.is_some(),
                sh.codec[0], sh.codec[1]
            )
        };
        let only_conns = unfinished.iter().all(|(n, _)| n.ends_with(":conn"));
        // discriminators for listed findings: a guarded call-site marker seen in this run, or
        // a state only that finding produces
        let marker = match (leak_cause(&mon, 0), leak_cause(&mon, 1)) {
            ("other", b) => b,
            (a, _) => a,
        };
        let held_by_pending_open = {
            let sh = shared.lock().unwrap();
            (0..2).any(|side| {
                sh.stats[side].as_ref().map(|st| st.snapshot()).map(|v| {
                    v.conn_send_available <= 0 && v.streams.iter().any(|x| x.is_pending_open && x.send_available > 0) && v.streams.iter().any(|x| x.is_pending_send_capacity && !x.is_pending_open)
                }).unwrap_or(false)
            })
        };
        let cause = if marker != "other" {
            format!("{}:", marker)
        } else if held_by_pending_open {
            "capacity-held-while-pending-open:".to_string()
        } else if only_conns {
            "other:".to_string()
        } else {
            String::new()
        };
        violations.push(Violation::new(
            prop,
            "parked-at-quiescence",
            format!("{}{}", cause, kinds.join("+")),
            format!("quiescent with unfinished tasks {:?};{}{}", unfinished, stats_txt, net_txt),
            step,
        ));
        // C19: every request handle and every stream handle of the client is gone (only the
        // two connection futures are left) and the client connection has not closed itself
        if only_conns && profile.cooperative && !fatal_cfg && unfinished.iter().any(|(n, _)| n == "c:conn") {
            violations.push(Violation::new(
                "C19",
                "idle-client-connection-not-closed",
                cause.clone(),
                format!("every client handle has been dropped and the system is quiescent, but the client connection neither sent GOAWAY(NO_ERROR) nor completed;{}{}", stats_txt, net_txt),
                step,
            ));
        }
    }
    let quiescent = matches!(outcome, StepOutcome::Quiescent);
    // acknowledgements can only be owed by an endpoint whose connection is still running
    let running = {
        let sh = shared.lock().unwrap();
        [!sh.conn_done[0], !sh.conn_done[1]]
    };
    mon.finish([quiescent && !fatal_cfg && running[0], quiescent && !fatal_cfg && running[1]]);
    violations.extend(mon.violations.drain(..));
    let hv = hist.with(|h| std::mem::take(&mut h.violations));
    violations.extend(hv);
    violations.extend(idle_violations);
    violations.extend(cap_violations);
    if shared.lock().unwrap().cap_probe.is_some() {
        hist.probe("capacity_probe_stream_checked");
    }
    if idle_checked {
        hist.probe("idle_state_checked");
    }
    let clean = !fatal_cfg && !profile.shutdowns && quiescent;
    let conn_ok = hist.with(|h| h.conn_results.iter().all(|r| matches!(r, Some(Ok(())))) && h.errors.is_empty());
    if clean && profile.cooperative {
        // two correct endpoints exchanging legal traffic: neither may fail the connection
        let res = hist.with(|h| h.conn_results.clone());
        for (side, r) in res.iter().enumerate() {
            if let Some(Err(e)) = r {
                // the side that *detected* the error is the one penalising legal traffic
                if e.is_library || e.is_io {
                    // what was the endpoint looking at when it gave up?
                    let cause = {
                        let m = &mon.ep[side];
                        let idx = m.goaway_out.iter().find(|g| g.1 != 0).map(|g| g.2).unwrap_or(m.in_idx);
                        if idx == 0 {
                            "none".to_string()
                        } else {
                            let f = &mon.frames[1 - side][idx - 1];
                            let cfg = if side == 0 { &plan.ccfg } else { &plan.scfg };
                            let quota = cfg.max_concurrent_reset_streams.unwrap_or(50);
                            let dur = cfg.reset_stream_duration.unwrap_or(std::time::Duration::from_secs(1)).as_nanos() as u64;
                            let no_memory = m.may_have_forgotten(f.sid, m.goaway_time.unwrap_or(mon.now_ns), quota, dur);
                            let app_reset = m.app_resets.contains_key(&f.sid);
                            let st = match m.streams.get(&f.sid) {
                                None => "unknown-stream",
                                Some(s) if s.rst_out_code == Some(crate::wire::REFUSED_STREAM) => "stream-it-refused",
                                Some(s) if (s.rst_out > 0 || app_reset) && no_memory => "stream-it-reset-and-forgot-by-configuration",
                                Some(s) if s.rst_out > 0 || app_reset => "stream-it-reset",
                                Some(s) if s.closed() => "closed-stream",
                                Some(s) if s.reserved => "reserved-stream",
                                Some(_) => "live-stream",
                            };
                            format!("{}-on-{}", crate::wire::type_name(f.ty), st)
                        }
                    };
                    // RFC 9113 5.1 lets an endpoint bound how long it ignores frames on a
                    // stream it reset and treat later ones as an error of its choosing. h2
                    // never remembers a refused stream and remembers reset streams only as
                    // configured; its own suite pins GOAWAY(PROTOCOL_ERROR) for HEADERS on
                    // a forgotten stream. Not judged (DESIGN.md Appendix A, "forgotten").
                    if cause == "HEADERS-on-stream-it-refused" || cause == "HEADERS-on-stream-it-reset-and-forgot-by-configuration" {
                        hist.probe("headers_on_forgotten_stream_conn_error_tolerated");
                        continue;
                    }
                    violations.push(Violation::new(
                        "C09",
                        "connection-error-on-legal-traffic",
                        format!("{}:{:?}:{}", if side == 0 { "client" } else { "server" }, e.reason, cause),
                        format!("{} failed a connection that carried only legal traffic: {}", if side == 0 { "client" } else { "server" }, e.display),
                        step,
                    ));
                }
            }
        }
    }
    if clean && profile.cooperative {
        check_legal_resets(&hist, &mon, &mut violations, step);
    }
    {
        // nothing but the peer's RST_STREAM can have failed a stream: no fatal fault, no
        // error GOAWAY either way, no abrupt shutdown, no connection that failed
        let no_conn_failure = hist.with(|h| h.abrupt.is_empty() && h.conn_results.iter().all(|r| !matches!(r, Some(Err(_)))))
            && (0..2).all(|s| mon.ep[s].goaway_out.iter().all(|g| g.1 == 0) && mon.ep[s].goaway_in.iter().all(|g| g.1 == 0));
        check_peer_resets(&hist, &mon, !fatal_cfg && no_conn_failure && !profile.inject, &mut violations, step);
    }
    // C15 (client side): the same for pushed streams whose response the client application
    // already holds, whatever makes the client send a GOAWAY (last handle dropped, error)
    {
        let taken = hist.with(|h| h.pushed_taken_step.clone());
        let cl = &mon.ep[0];
        for (i, g) in cl.goaway_out.iter().enumerate() {
            let gstep = cl.goaway_out_step.get(i).copied().unwrap_or(u64::MAX);
            for (pid, st) in &taken {
                if *st < gstep && *pid > g.0 {
                    violations.push(Violation::new("C15", "goaway-last-id-below-accepted-stream", "client", format!("client sent GOAWAY(last={}, code={}) at step {} although the response of pushed stream {} had been handed to the application at step {}", g.0, g.1, gstep, pid, st), step));
                }
            }
        }
    }
    // C15: GOAWAY last-stream-id covers every stream already handed to the application;
    // the peer's code and origin surface in the client's connection result; a graceful
    // shutdown lets every accepted stream finish
    if profile.shutdowns {
        let (accepts, abrupt, graceful, cres) = hist.with(|h| (h.accept_step.clone(), h.abrupt.clone(), h.graceful.clone(), h.conn_results.clone()));
        let srv = &mon.ep[1];
        for (i, g) in srv.goaway_out.iter().enumerate() {
            let gstep = srv.goaway_out_step.get(i).copied().unwrap_or(u64::MAX);
            for (sid, st) in &accepts {
                // strictly earlier step: the accept happened in an earlier poll than the encode
                if *st < gstep && *sid > g.0 && g.1 == 0 {
                    violations.push(Violation::new("C15", "goaway-last-id-below-accepted-stream", "", format!("server sent GOAWAY(last={}, code={}) at step {} although stream {} had been handed to the application at step {}", g.0, g.1, gstep, sid, st), step));
                }
            }
        }
        if let (Some((_, code, _)), Some(Err(e))) = (abrupt.first(), &cres[0]) {
            // the client learns the server's code, and that it came from the peer's GOAWAY
            let io_first = e.is_io;
            // (the library may have failed the connection with its own code before the
            // application's call took effect: what counts is what the server put on the wire)
            let sent: Vec<u32> = srv.goaway_out.iter().map(|g| g.1).filter(|c| *c != 0).collect();
            let reported_ok = e.reason.map(|r| sent.contains(&r)).unwrap_or(false) && e.is_remote && e.is_go_away;
            if !io_first && !reported_ok && sent.contains(code) && *code != 0 {
                violations.push(Violation::new("C15", "client-result-does-not-report-peer-goaway", "", format!("server called abrupt_shutdown({}); client connection result: {:?}", code, e), step));
            }
        }
        let conn_failed = cres.iter().any(|r| matches!(r, Some(Err(e)) if e.reason != Some(0)));
        if abrupt.is_empty() && !graceful.is_empty() && !fatal_cfg && quiescent && !mutual_block && !profile.work.aborts && !conn_failed {
            // every stream the server accepted must run to completion in both directions
            hist.with(|h| {
                for (sid, s) in &h.streams {
                    if !accepts.contains_key(sid) {
                        continue;
                    }
                    for (di, d) in s.dirs.iter().enumerate() {
                        if d.s_end && d.s_abort.is_none() && !d.r_end && !d.r_stopped && s.dirs[1 - di].s_abort.is_none() && !s.dirs[1 - di].r_stopped {
                            violations.push(Violation::new("C15", "accepted-stream-not-completed-after-graceful-shutdown", format!("dir{}", di), format!("stream {} dir {}: submitted completely ({} bytes) but the receiver got {} bytes, end={}, err={:?} after graceful_shutdown", sid, di, d.s_body, d.r_body, d.r_end, d.r_err), step));
                        }
                    }
                }
            });
        }
    }
    // C05 inbound: every peer-initiated stream the server processed is either handed to the
    // application or refused on the wire - never dropped silently
    if quiescent && !fatal_cfg && !profile.shutdowns {
        let server_ok = hist.with(|h| matches!(h.conn_results[1], Some(Ok(())) | None));
        if server_ok && mon.ep[1].events.is_empty() {
            let accepted: std::collections::BTreeSet<u32> = hist.with(|h| h.streams.iter().filter(|(_, s)| s.dirs[0].r_head.is_some()).map(|(k, _)| *k).collect());
            for (sid, m) in &mon.ep[1].streams {
                if m.local_init || m.reserved || !m.hdr_in || sid % 2 == 0 {
                    continue;
                }
                if !accepted.contains(sid) && m.rst_out == 0 && !m.rst_in && mon.ep[1].goaway_out.is_empty() {
                    violations.push(Violation::new(
                        "C05",
                        "stream-neither-delivered-nor-refused",
                        "",
                        format!("server processed the HEADERS of stream {} but neither handed it to the application nor sent RST_STREAM for it (advertised limit {:?})", sid, plan.scfg.max_concurrent_streams),
                        step,
                    ));
                }
            }
        }
    }
    // C07: a stream whose complete message had been received before the connection ended
    // still delivers it (the receiver had processed END_STREAM; nobody reset the stream)
    if fatal_cfg || profile.shutdowns {
        hist.with(|h| {
            for (sid, s) in &h.streams {
                for (di, d) in s.dirs.iter().enumerate() {
                    let recv_side = if di == 0 { 1 } else { 0 };
                    let m = match mon.ep[recv_side].streams.get(sid) {
                        Some(m) => m,
                        None => continue,
                    };
                    let app_reset = mon.ep[recv_side].app_resets.contains_key(sid) || mon.ep[1 - recv_side].app_resets.contains_key(sid);
                    if m.hdr_in && m.end_in && !m.rst_in && m.rst_out == 0 && !app_reset && !d.r_stopped && d.r_head.is_some() && !d.r_end {
                        if let Some(err) = &d.r_err {
                            violations.push(Violation::new(
                                "C07",
                                "complete-message-lost-at-connection-end",
                                format!("dir{}", di),
                                format!(
                                    "stream {} dir {}: the receiver had processed the whole message (END_STREAM, {} body bytes) before the connection ended, but its application got {} bytes and then an error instead of a clean end: {}",
                                    sid, di, d.s_body, d.r_body, err
                                ),
                                step,
                            ));
                        }
                    }
                }
            }
        });
    }
    let streams_done = check_fidelity(&hist, &mon, clean && profile.cooperative && conn_ok, &mut violations, step);

    // C16 (iv): a capacity waiter that never finishes in a cooperative run
    if let Some(v) = violations.iter().find(|v| v.prop == "C06" && v.oracle == "parked-at-quiescence" && v.disc.split('+').any(|k| k.ends_with("poll_capacity"))).cloned() {
        // (the cause prefix of the C06 signature, if any, discriminates listed findings)
        let cause = match v.disc.rfind(':') {
            Some(i) => v.disc[..=i].to_string(),
            None => String::new(),
        };
        violations.push(Violation { prop: "C16", oracle: "capacity-waiter-never-woken", disc: cause, msg: v.msg.clone(), step: v.step });
    }
    // C17: resetting / dropping a stream must not disturb other streams
    let had_reset = hist.with(|h| !h.resets.is_empty());
    if had_reset {
        let extra: Vec<Violation> = violations
            .iter()
            .filter(|v| v.prop == "C01" && matches!(v.oracle, "body-corrupt" | "body-longer-than-submitted" | "clean-end-without-full-delivery" | "is-end-stream-early" | "complete-message-not-delivered" | "head-mismatch"))
            .map(|v| Violation { prop: "C17", oracle: "other-stream-disturbed-in-run-with-resets", disc: v.oracle.to_string(), msg: format!("(a stream was reset or abandoned in this run) {}", v.msg), step: v.step })
            .collect();
        violations.extend(extra);
    }
    // C20: with handle operations injected at the connection's lock / atomic yield points,
    // every guarantee must still hold; a violation of any of them is a C20 violation too
    if profile.inject {
        let extra: Vec<Violation> = violations
            .iter()
            .filter(|v| v.prop != "C20")
            .map(|v| Violation { prop: "C20", oracle: "guarantee-broken-under-concurrent-handle-use", disc: format!("{}/{}/{}", v.prop, v.oracle, v.disc), msg: format!("(with handle operations interleaved at the connection's yield points) {}", v.msg), step: v.step })
            .collect();
        violations.extend(extra);
    }

    // ---------------- outputs
    let (bytes, mut faults, lock_calls) = {
        let n = net.lock();
        ([n.dirs[0].written, n.dirs[1].written], n.faults.clone(), n.calls_with_lock_held)
    };
    faults.merge(&exec.faults);
    let mut probes = hist.with(|h| h.probes.clone());
    for (k, v) in &mon.probes {
        *probes.entry(k).or_insert(0) += v;
    }
    if lock_calls > 0 {
        probes.insert("transport_called_with_lock_held", lock_calls);
    }
    if exec.yield_points > 0 {
        probes.insert("yield_points_seen", exec.yield_points);
        probes.insert("handle_polls_injected_at_yield_points", exec.injected);
    }
    if mon.ep[0].max_open_local > 1 {
        probes.insert("concurrent_streams_gt1", 1);
    }
    let mut log_hash: u64 = 0xcbf29ce484222325;
    {
        let n = net.lock();
        fnv(&mut log_hash, &n.dirs[0].tap);
        fnv(&mut log_hash, &n.dirs[1].tap);
    }
    fnv(&mut log_hash, &exec.step.to_le_bytes());
    fnv(&mut log_hash, &exec.sched_hash.to_le_bytes());
    hist.with(|h| {
        for (sid, s) in &h.streams {
            fnv(&mut log_hash, &sid.to_le_bytes());
            for d in &s.dirs {
                fnv(&mut log_hash, &d.r_body.to_le_bytes());
                fnv(&mut log_hash, &d.s_body.to_le_bytes());
                fnv(&mut log_hash, &[d.r_end as u8, d.s_end as u8, d.r_err.is_some() as u8]);
            }
        }
    });
    for v in &violations {
        fnv(&mut log_hash, v.signature().as_bytes());
    }
    let mut work_hash: u64 = 0xcbf29ce484222325;
    fnv(&mut work_hash, format!("{:?}{:?}", plan.cprogs, plan.sprogs).as_bytes());
    let trace_tail = hist.with(|h| h.log.iter().rev().take(60).rev().map(|e| format!("step {} {} s{}: {}", e.step, if e.side == 0 { "client" } else { "server" }, e.sid, e.what)).collect::<Vec<_>>());
    let sample = if opts.want_sample {
        Some(render_sample(&plan, &hist, &mon, &outcome))
    } else {
        None
    };
    h2::verif::enable_events(false);
    RunOut {
        violations,
        steps: exec.step,
        sim_ns: exec.now_ns,
        bytes,
        faults,
        probes,
        sched_hash: exec.sched_hash,
        work_hash,
        log_hash,
        states: states.into_iter().collect(),
        outcome: format!("{:?}", outcome),
        streams_done,
        sample,
        tape: tape.recorded(),
        trace_tail,
        recheck_tape: None,
    }
}

/// Root-cause discriminator for leak-type findings, from the endpoint's own call-site markers.
fn leak_cause(mon: &Monitor, _side: usize) -> &'static str {
    // a marker on either endpoint explains what is seen on both (the peer of a stream whose
    // reset never arrives keeps it open too)
    let has = |site: &str| {
        (0..2).any(|side| mon.notes[side].iter().any(|(s, _)| *s == site) || mon.ep[side].events.iter().any(|(e, _)| matches!(e, h2::verif::Ev::Note { site: s2, .. } if *s2 == site)))
    };
    if has("closed-counted-scheduled-reset-not-queued") {
        "scheduled-reset-never-sent"
    } else if has("reset-while-pending-open") {
        "reset-while-pending-open"
    } else {
        "other"
    }
}

/// C19: the run is quiescent, every stream has finished and every stream handle is gone;
/// only the two connections and one request handle are alive.
fn check_idle_state(profile: &T1Profile, plan: &T1Plan, shared: &SharedRef, mon: &Monitor, hist: &Hist, out: &mut Vec<Violation>, step: u64) {
    let _ = (profile, hist);
    let sh = shared.lock().unwrap();
    for side in 0..2 {
        let who = if side == 0 { "client" } else { "server" };
        if sh.conn_done[side] {
            continue;
        }
        let cfg = if side == 0 { &plan.ccfg } else { &plan.scfg };
        let st = match &sh.stats[side] {
            Some(s) => s.snapshot(),
            None => continue,
        };
        let max_remembered = cfg.max_concurrent_reset_streams.unwrap_or(50);
        let mut remembered = 0;
        for x in &st.streams {
            if x.is_pending_reset_expiry && x.state == 6 && x.ref_count == 0 {
                remembered += 1;
                continue;
            }
            // Notes can still be waiting behind an unwritten frame in the monitor's queue.
            let evicted = mon.notes[side].contains(&("evict-from-pending-capacity", x.id))
                || mon.ep[side].events.iter().any(|(e, _)| matches!(e, h2::verif::Ev::Note { site: "evict-from-pending-capacity", id } if *id == x.id));
            out.push(Violation::new(
                "C19",
                "stream-retained-when-idle",
                format!("{}:{}:st{}:refs{}:{}{}{}{}{}{}", if evicted { "evicted-dead-from-capacity-queue" } else { leak_cause(mon, side) }, who, x.state, x.ref_count.min(2),
                    if x.is_pending_send { "S" } else { "" }, if x.is_pending_send_capacity { "C" } else { "" }, if x.is_pending_open { "O" } else { "" },
                    if x.is_pending_push { "P" } else { "" }, if x.is_pending_accept { "A" } else { "" }, if x.is_pending_window_update { "W" } else { "" }),
                format!("{} still holds a record for stream {} although it is finished and all its handles are dropped: {:?}", who, x.id, x),
                step,
            ));
        }
        // several unexplained retained records in one run are a different thing from a single one
        {
            let pick = |v: &Violation| v.oracle == "stream-retained-when-idle" && v.disc.starts_with("other:") && v.disc.contains(who) && v.disc.ends_with("refs0:");
            let n_other = out.iter().filter(|v| pick(v)).count();
            if n_other >= 3 {
                for v in out.iter_mut().filter(|v| pick(v)) {
                    v.disc = format!("{}many", v.disc);
                }
            }
        }
        if remembered > max_remembered {
            out.push(Violation::new("C19", "too-many-remembered-resets", who, format!("{} remembers {} reset streams, configured maximum {}", who, remembered, max_remembered), step));
        }
        if st.recv_buffer_slots != 0 || st.send_buffer_slots != 0 {
            out.push(Violation::new("C19", "buffers-not-empty-when-idle", format!("{}:{}", leak_cause(mon, side), who), format!("{}: recv buffer slots {} send buffer slots {} with no stream alive", who, st.recv_buffer_slots, st.send_buffer_slots), step));
        }
        if st.num_send_streams != 0 || st.num_recv_streams != 0 {
            out.push(Violation::new("C19", "concurrency-count-not-idle", format!("{}:{}", leak_cause(mon, side), who), format!("{}: num_send_streams={} num_recv_streams={} with no stream alive", who, st.num_send_streams, st.num_recv_streams), step));
        }
        if st.conn_recv_in_flight != 0 {
            out.push(Violation::new("C19", "recv-in-flight-not-idle", who, format!("{}: {} bytes of connection receive window still counted as in flight with no stream alive", who, st.conn_recv_in_flight), step));
        }
        // flow-control bookkeeping agrees with the wire accountant once nothing is in flight
        let e = &mon.ep[side];
        if e.events.is_empty() && st.conn_send_window as i64 != e.conn_send_win {
            out.push(Violation::new("C19", "conn-send-window-disagrees-with-wire", who, format!("{}: internal connection send window {} but the wire accountant says {}", who, st.conn_send_window, e.conn_send_win), step));
        }
        // C03: everything received has been released or discarded, so the window h2 is
        // prepared to advertise must be back at the configured target.
        let mut target = cfg.conn_target() as i64;
        for a in plan.actions.iter().filter(|a| a.side == side) {
            if let Ctl::SetTarget(v) = a.ctl {
                target = v as i64;
            }
        }
        if st.conn_recv_available as i64 != target {
            out.push(Violation::new(
                "C03",
                "connection-window-not-restored-when-idle",
                format!("{}:{}", who, if (st.conn_recv_available as i64) < target { "short" } else { "excess" }),
                format!("{}: with no stream alive and everything released, connection receive capacity is {} but the configured target is {} (window advertised to the peer {})", who, st.conn_recv_available, target, st.conn_recv_window),
                step,
            ));
        }
        let expected_refs = if side == 0 { 2 + sh.probe_sr.is_some() as usize } else { 1 };
        if st.refs != expected_refs {
            out.push(Violation::new("C19", "handle-refcount-not-idle", format!("{}:{}", who, st.refs), format!("{}: {} handle references counted, {} alive", who, st.refs, expected_refs), step));
        }
    }
}

/// C16 (iii): opens a fresh stream, reserves 2^31-1 and reports what it is told it may send.
async fn capacity_probe(ctx: Ctx, mut sr: h2::client::SendRequest<Bytes>, shared: SharedRef, gate: crate::exec::Gate) {
    ctx.status.set("c:capprobe", "poll_ready");
    if poll_fn(|cx| sr.poll_ready(cx)).await.is_err() {
        return;
    }
    let req = build_request("POST", "/capprobe", &vec![], 0);
    let head = crate::hist::fields_of_request(&req);
    let (resp, mut ss) = match sr.send_request(req, false) {
        Ok(x) => x,
        Err(_) => return,
    };
    drop(sr);
    let sid = resp.stream_id().as_u32();
    ctx.hist.dir(sid, 0, |d| d.s_head = Some(head));
    ss.reserve_capacity((1usize << 31) - 1);
    ctx.status.set("c:capprobe", "holding reservation");
    // wait for the driver to find the system quiescent
    poll_fn(|cx| {
        if gate.is_open() {
            Poll::Ready(())
        } else {
            gate.register(cx.waker());
            // keep the capacity waiter registered as an application would
            let _ = ss.poll_capacity(cx);
            Poll::Pending
        }
    })
    .await;
    let cap = ss.capacity();
    let step = ctx.hist.step();
    shared.lock().unwrap().cap_probe = Some(CapProbe { sid, capacity: cap, step });
    ss.reserve_capacity(0);
    ctx.hist.dir(sid, 0, |d| d.s_end = true);
    let _ = ss.send_data(Bytes::new(), true);
    ctx.status.set("c:capprobe", "response");
    match resp.await {
        Ok(r) => {
            let f = crate::hist::fields_of_response(&r);
            ctx.hist.dir(sid, 1, |d| {
                d.r_head = Some(f);
                d.r_head_count += 1;
            });
            let plan = ReadPlan { release: Release::Immediate, stop_after: None, probe_end_stream: false, skip_trailers: false };
            read_body(ctx.clone(), "c:capprobe".to_string(), 0, r.into_body(), plan, 1, sid, Cancel::default()).await;
        }
        Err(e) => {
            ctx.hist.error(0, sid, "response", &e);
            ctx.hist.dir(sid, 1, |d| d.r_err = Some(e.to_string()));
        }
    }
    ctx.status.set("c:capprobe", "done");
}

fn check_capacity_probe(plan: &T1Plan, shared: &SharedRef, mon: &Monitor, out: &mut Vec<Violation>, step: u64, _final: bool) {
    // read the assignment straight from the endpoint's books (the task reports after the gate)
    let sh = shared.lock().unwrap();
    let st = match &sh.stats[0] {
        Some(s) => s.snapshot(),
        None => return,
    };
    let e = &mon.ep[0];
    if !e.events.is_empty() || sh.conn_done[0] {
        return;
    }
    // the probe stream is the only live, referenced stream
    let probe = st.streams.iter().filter(|x| x.ref_count > 0 && x.state != 6).max_by_key(|x| x.id);
    let x = match probe {
        Some(x) => x,
        None => return,
    };
    let conn = e.conn_send_win.max(0);
    let stream_win = e.streams.get(&x.id).map(|s| s.send_win).unwrap_or(e.peer_acked.iws as i64).max(0);
    let maxbuf = plan.ccfg.max_send_buffer_size.unwrap_or(400 << 10) as i64;
    // a stream still waiting for a concurrency slot is assigned nothing yet
    if x.is_pending_open {
        return;
    }
    let assigned = (x.send_available as i64).max(0);
    let expect_assigned = conn.min(stream_win);
    if assigned != expect_assigned {
        out.push(Violation::new(
            "C16",
            "probe-stream-capacity",
            if assigned < expect_assigned { "short" } else { "excess" },
            format!(
                "with every other stream finished, a fresh stream reserving 2^31-1 was assigned {} bytes; the wire says connection window {} and stream window {} (max_send_buffer_size {}): capacity is stranded or over-assigned",
                assigned, conn, stream_win, maxbuf
            ),
            step,
        ));
    }
}

/// Legal traffic between two correct endpoints: a library-initiated RST_STREAM must be one
/// of the refusals/cancellations the protocol and configuration explain.
/// C17, second sentence: a reset coming from the peer surfaces on the stream's handles with
/// the peer's exact code and origin. `strict` = nothing else can have failed the stream
/// first (no fatal fault, no error GOAWAY, no abrupt shutdown in the run).
fn check_peer_resets(hist: &Hist, mon: &Monitor, strict: bool, out: &mut Vec<Violation>, step: u64) {
    let (errors, polls) = hist.with(|h| (h.errors.clone(), h.reset_polls.clone()));
    let who = |s: u8| if s == 0 { "client" } else { "server" };
    // what a handle reported as a remote reset must be what the peer put on the wire
    for er in &errors {
        if er.sid == 0 || !er.facts.is_reset || !er.facts.is_remote {
            continue;
        }
        let w = mon.ep[er.side as usize].streams.get(&er.sid);
        let ok = w.map(|w| w.rst_in && er.facts.reason.map(|r| w.rst_in_codes.contains(&r)).unwrap_or(false)).unwrap_or(false);
        if !ok && mon.ep[er.side as usize].events.is_empty() {
            out.push(Violation::new("C17", "remote-reset-reported-differs-from-wire", er.handle, format!("{} {} on stream {} reported {:?} but the RST_STREAM it processed from the peer is {:?}", who(er.side), er.handle, er.sid, er.facts, w.map(|w| (w.rst_in, w.rst_in_code))), step));
        }
    }
    for (side, sid, r, _) in &polls {
        if let Ok(code) = r {
            let w = mon.ep[*side as usize].streams.get(sid);
            let by_peer = w.map(|w| w.rst_in && w.rst_in_codes.contains(code)).unwrap_or(false);
            let by_self = w.map(|w| w.rst_out > 0 && w.rst_out_code == Some(*code)).unwrap_or(false) || hist.with(|h| h.resets.iter().any(|x| x.side == *side && x.sid == *sid));
            // (a stream that ended cleanly resolves a cooperative wait with NO_ERROR)
            // (a connection-level error surfaces through poll_reset with the GOAWAY's code)
            let by_goaway = mon.ep[*side as usize].goaway_in.iter().any(|g| g.1 == *code) || mon.ep[*side as usize].goaway_out.iter().any(|g| g.1 == *code);
            if !by_peer && !by_self && !by_goaway && *code != 0 && mon.ep[*side as usize].events.is_empty() {
                out.push(Violation::new("C17", "poll-reset-code-differs-from-wire", "", format!("{} poll_reset on stream {} returned code {} but no RST_STREAM with that code was processed or sent on it ({:?})", who(*side), sid, code, w.map(|w| (w.rst_in_code, w.rst_out_code))), step));
            }
        }
    }
    if !strict {
        return;
    }
    // a peer reset processed while the receiving half was still open must be what the
    // receiving handles report afterwards (never a clean end, never another error)
    let recv_handles = ["poll_data", "poll_trailers", "response", "poll_informational", "pushed_response"];
    for er in &errors {
        if er.sid == 0 || !recv_handles.contains(&er.handle) {
            continue;
        }
        let w = match mon.ep[er.side as usize].streams.get(&er.sid) {
            Some(w) => w,
            None => continue,
        };
        let t = match w.rst_in_step {
            Some(t) => t,
            None => continue,
        };
        if t < er.step && w.rst_out == 0 && !w.end_in_before_rst {
            let same = er.facts.is_reset && er.facts.is_remote && er.facts.reason.map(|r| w.rst_in_codes.contains(&r)).unwrap_or(false);
            if !same {
                out.push(Violation::new("C17", "peer-reset-not-surfaced", er.handle, format!("{} processed RST_STREAM({:?}) from the peer on stream {} at step {}, but {} at step {} reported {:?}", who(er.side), w.rst_in_code, er.sid, t, er.handle, er.step, er.facts), step));
            }
        }
    }
    for (side, sid, r, pstep) in &polls {
        let w = match mon.ep[*side as usize].streams.get(sid) {
            Some(w) => w,
            None => continue,
        };
        if let (Some(t), Err(f)) = (w.rst_in_step, r) {
            if t < *pstep && w.rst_out == 0 {
                out.push(Violation::new("C17", "peer-reset-not-surfaced", "poll_reset", format!("{} processed RST_STREAM({:?}) from the peer on stream {} at step {}, but poll_reset at step {} failed with {:?}", who(*side), w.rst_in_code, sid, t, pstep, f), step));
            }
        }
    }
}

fn check_legal_resets(hist: &Hist, mon: &Monitor, out: &mut Vec<Violation>, step: u64) {
    use crate::wire::{CANCEL, NO_ERROR, REFUSED_STREAM, STREAM_CLOSED};
    let app: Vec<(u8, u32, u32)> = hist.with(|h| h.resets.iter().map(|r| (r.side, r.sid, r.code)).collect());
    for side in 0..2 {
        let e = &mon.ep[side];
        for (sid, s) in &e.streams {
            if let Some(code) = s.rst_out_code {
                let by_app = app.iter().any(|(sd, id, c)| *sd as usize == side && id == sid && *c == code);
                let advertised_limit = e.own_acked.max_conc.is_some() || e.own_sent.iter().any(|st| st.iter().any(|(k, _)| *k == crate::wire::S_MAX_CONCURRENT_STREAMS));
                let ok = by_app || code == CANCEL || code == NO_ERROR || code == STREAM_CLOSED || (code == REFUSED_STREAM && advertised_limit);
                if !ok {
                    out.push(Violation::new(
                        "C09",
                        "stream-reset-on-legal-traffic",
                        format!("{}:{}", if side == 0 { "client" } else { "server" }, code),
                        format!("{} reset stream {} with code {} although the peer sent only legal traffic", if side == 0 { "client" } else { "server" }, sid, code),
                        step,
                    ));
                }
            }
        }
    }
}

fn uri_of(block: &Fields) -> Fields {
    // turn the wire pseudo-fields of a request into the API-level representation
    let get = |n: &str| block.iter().find(|(k, _)| k == n).map(|(_, v)| String::from_utf8_lossy(v).to_string());
    let mut out: Fields = Vec::new();
    if let Some(m) = get(":method") {
        out.push((":method".into(), m.into_bytes()));
        let uri = format!("{}://{}{}", get(":scheme").unwrap_or_default(), get(":authority").unwrap_or_default(), get(":path").unwrap_or_default());
        out.push((":uri".into(), uri.into_bytes()));
        if let Some(p) = get(":protocol") {
            out.push((":protocol".into(), p.into_bytes()));
        }
    }
    if let Some(s) = get(":status") {
        out.push((":status".into(), s.into_bytes()));
    }
    for (k, v) in block {
        if !k.starts_with(':') {
            out.push((k.clone(), v.clone()));
        }
    }
    out
}

/// C01 (and the C10 wire cross-check): compare submitted vs delivered per stream/direction.
/// Returns the number of streams whose both directions completed cleanly.
pub fn check_fidelity(hist: &Hist, mon: &Monitor, must_complete: bool, out: &mut Vec<Violation>, step: u64) -> u32 {
    let mut done = 0;
    hist.with(|h| {
        for (sid, s) in &h.streams {
            let mut both = true;
            for (di, d) in s.dirs.iter().enumerate() {
                let tag = format!("dir{}", di);
                if let Some(rh) = &d.r_head {
                    match &d.s_head {
                        None => {
                            out.push(Violation::new("C01", "head-without-submission", tag.clone(), format!("stream {} dir {}: delivered head {} but nothing was submitted", sid, di, show_fields(rh)), step));
                            // nothing recorded to compare the rest with (T2: hand-made frames)
                            both = false;
                            continue;
                        }
                        Some(sh) => {
                            if canon(sh) != canon(rh) {
                                out.push(Violation::new("C01", "head-mismatch", tag.clone(), format!("stream {} dir {}: submitted {} delivered {}", sid, di, show_fields(sh), show_fields(rh)), step));
                            }
                        }
                    }
                    if d.r_head_count > 1 {
                        out.push(Violation::new("C01", "head-delivered-twice", tag.clone(), format!("stream {} dir {}", sid, di), step));
                    }
                }
                // informational: delivered list must be a prefix-subsequence in order
                if d.r_info.len() > d.s_info.len() {
                    out.push(Violation::new("C01", "informational-extra", tag.clone(), format!("stream {}: {} informational delivered, {} submitted", sid, d.r_info.len(), d.s_info.len()), step));
                } else {
                    for (i, ri) in d.r_info.iter().enumerate() {
                        if canon(ri) != canon(&d.s_info[i]) {
                            out.push(Violation::new("C01", "informational-mismatch", tag.clone(), format!("stream {} informational #{}: submitted {} delivered {}", sid, i, show_fields(&d.s_info[i]), show_fields(ri)), step));
                        }
                    }
                }
                // pushes
                for (i, (pid, rf)) in d.r_push.iter().enumerate() {
                    match d.s_push.iter().find(|(p, _)| p == pid) {
                        None => out.push(Violation::new("C01", "push-without-submission", tag.clone(), format!("stream {}: push promise {} delivered but never submitted on this parent", sid, pid), step)),
                        Some((_, sf)) => {
                            if canon(sf) != canon(rf) {
                                out.push(Violation::new("C01", "push-head-mismatch", tag.clone(), format!("stream {} push {}: submitted {} delivered {}", sid, pid, show_fields(sf), show_fields(rf)), step));
                            }
                        }
                    }
                    if d.r_push[..i].iter().any(|(p, _)| p == pid) {
                        out.push(Violation::new("C01", "push-delivered-twice", tag.clone(), format!("stream {} push {}", sid, pid), step));
                    }
                }
                if d.r_body > d.s_body {
                    out.push(Violation::new("C01", "body-longer-than-submitted", tag.clone(), format!("stream {} dir {}: delivered {} bytes, submitted {}", sid, di, d.r_body, d.s_body), step));
                }
                if let Some(off) = d.r_body_bad {
                    out.push(Violation::new("C01", "body-corrupt", tag.clone(), format!("stream {} dir {}: byte at offset {} differs from what was submitted there", sid, di, off), step));
                }
                if d.r_end {
                    let ok = d.s_end && d.s_abort.is_none() && d.r_body == d.s_body && d.r_trailers.as_ref().map(canon) == d.s_trailers.as_ref().map(canon);
                    if !ok {
                        out.push(Violation::new(
                            "C01",
                            "clean-end-without-full-delivery",
                            tag.clone(),
                            format!(
                                "stream {} dir {}: clean end reported after {} of {} bytes (submitted end={}, abort={:?}, trailers submitted={} delivered={})",
                                sid, di, d.r_body, d.s_body, d.s_end, d.s_abort, d.s_trailers.is_some(), d.r_trailers.is_some()
                            ),
                            step,
                        ));
                    }
                } else {
                    both = false;
                    // in a clean cooperative run every fully submitted message must arrive
                    // an abort or an abandoned reader on the other direction resets the whole stream
                    let peer_dir_abort = s.dirs[1 - di].s_abort.is_some() || s.dirs[1 - di].r_stopped;
                    // a pushed stream has a receiver only if the client took the promise
                    let adopted = sid % 2 == 1 || h.streams.values().any(|p| p.dirs[1].r_push.iter().any(|(pid, _)| pid == sid));
                    let wire_reset = (0..2).any(|sd| mon.ep[sd].streams.get(sid).map(|m| m.rst_out > 0).unwrap_or(false));
                    if must_complete && adopted && !wire_reset && d.s_end && d.s_abort.is_none() && !d.r_stopped && !peer_dir_abort && d.s_head.is_some() {
                        out.push(Violation::new(
                            "C01",
                            "complete-message-not-delivered",
                            tag.clone(),
                            format!("stream {} dir {}: fully submitted ({} bytes) but the receiver got head={} {} bytes end=false err={:?}", sid, di, d.s_body, d.r_head.is_some(), d.r_body, d.r_err),
                            step,
                        ));
                    }
                }
                // wire cross-check of emitted header blocks against submissions (C10 link)
                let side = if di == 0 { 0 } else { 1 };
                if let Some(sm) = mon.ep[side].streams.get(sid) {
                    for (kind, _eos, fl) in &sm.blocks_out {
                        let api = uri_of(fl);
                        let want: Option<&Fields> = match kind {
                            0 => d.s_head.as_ref(),
                            2 => d.s_trailers.as_ref(),
                            _ => None,
                        };
                        if let Some(w) = want {
                            if canon(w) != canon(&api) {
                                out.push(Violation::new(
                                    "C10",
                                    "emitted-block-differs-from-submission",
                                    format!("kind{}", kind),
                                    format!("stream {} dir {}: submitted {} but the emitted block decodes (reference decoder) to {}", sid, di, show_fields(w), show_fields(&api)),
                                    step,
                                ));
                            }
                        }
                    }
                }
            }
            if both {
                done += 1;
            }
        }
    });
    done
}

fn render_sample(plan: &T1Plan, hist: &Hist, mon: &Monitor, outcome: &StepOutcome) -> serde_json::Value {
    let progs: Vec<serde_json::Value> = plan
        .cprogs
        .iter()
        .map(|p| {
            serde_json::json!({
                "req": format!("{} {}", p.method, p.path),
                "headers": p.headers.len(),
                "eos_on_headers": p.eos_on_headers,
                "body_chunks": p.body.chunks.iter().map(|c| format!("{}:{:?}", c.len, c.mode)).collect::<Vec<_>>(),
                "end": format!("{:?}", match &p.body.end { EndMode::Trailers(t) => format!("trailers({})", t.len()), e => format!("{:?}", e) }),
                "abort": format!("{:?}", p.body.abort),
                "release": format!("{:?}", p.read.release),
            })
        })
        .collect();
    let nshow: usize = std::env::var("H2SIM_WIRE").ok().and_then(|s| s.parse().ok()).unwrap_or(25);
    let wire: Vec<String> = (0..2)
        .flat_map(|d| mon.frames[d].iter().take(nshow).map(move |f| format!("{} @{} {}", if d == 0 { "C>" } else { "S>" }, f.offset, f.describe())))
        .collect();
    let wire_tail: Vec<String> = (0..2)
        .flat_map(|d| {
            let n = mon.frames[d].len();
            mon.frames[d].iter().skip(n.saturating_sub(nshow)).map(move |f| format!("{} @{} {}", if d == 0 { "C>" } else { "S>" }, f.offset, f.describe()))
        })
        .collect();
    let log = hist.with(|h| h.log.iter().take(40).map(|e| format!("step {} side {} s{}: {}", e.step, e.side, e.sid, e.what)).collect::<Vec<_>>());
    serde_json::json!({
        "client_cfg": plan.ccfg.to_json(),
        "server_cfg": plan.scfg.to_json(),
        "net_caps": format!("{:?}", plan.net_caps),
        "io": format!("{:?}", plan.io),
        "fatal_fault": format!("{:?}", plan.fatal),
        "ctl_actions": format!("{:?}", plan.actions),
        "client_programs": progs,
        "server_programs": plan.sprogs.len(),
        "outcome": format!("{:?}", outcome),
        "first_wire_frames": wire,
        "last_wire_frames": wire_tail,
        "first_api_events": log,
    })
}

// --------------------------------------------------------------------------------------
// C07 cut-point sweep (fault enumeration): one scenario, every ending at every point

pub const CUT_KINDS: &[&str] = &["read-eof", "read-error", "write-error", "write-zero", "cut-both", "drop-connection", "flush-error", "shutdown-error"];

fn make_cut(kind: usize, side: usize, at: u64) -> FatalFault {
    use std::io::ErrorKind::*;
    match kind {
        0 => FatalFault::Io(side, IoFault::ReadEof { at }),
        1 => FatalFault::Io(side, IoFault::ReadError { at, kind: ConnectionReset }),
        2 => FatalFault::Io(side, IoFault::WriteError { at, kind: BrokenPipe }),
        3 => FatalFault::Io(side, IoFault::WriteZero { at }),
        4 => FatalFault::CutAtStep(at),
        5 => FatalFault::DropConnAtStep(side, at),
        6 => FatalFault::Io(side, IoFault::FlushError { call: at, kind: Other }),
        _ => FatalFault::Io(side, IoFault::ShutdownError { kind: TimedOut }),
    }
}

/// The Fault lane of a sweep tape: [0] = sweep everything; [k+1, side, at] = exactly one cut.
pub fn run_t1_sweep(profile: &T1Profile, tape: Tape, want_sample: bool, quick: bool) -> RunOut {
    // peek at the fault lane without consuming the other lanes
    // (search tapes produce a large value here, i.e. "sweep"; a replay tape of one failing
    // cut carries k+1 in 1..=8)
    let sel = tape.draw(Lane::Fault, 1_000_000) as usize;
    let sel = if sel <= CUT_KINDS.len() { sel } else { 0 };
    if sel > 0 {
        let side = tape.draw(Lane::Fault, 2) as usize;
        let at = tape.draw(Lane::Fault, u32::MAX) as u64;
        let mut out = run_t1(profile, tape.clone(), &T1Opts { want_sample, keep_log: true, fault_override: Some(make_cut(sel - 1, side, at)) });
        for v in out.violations.iter_mut() {
            v.msg = format!("[cut {} side {} at {}] {}", CUT_KINDS[sel - 1], side, at, v.msg);
        }
        out.tape = tape.recorded();
        return out;
    }
    // reference run without an ending
    let mut reference = run_t1(profile, tape.clone(), &T1Opts { want_sample, keep_log: true, fault_override: Some(FatalFault::None) });
    let ref_tape = tape.recorded();
    let totals = reference.bytes;
    let steps = reference.steps;
    let mut cuts: Vec<(usize, usize, u64)> = Vec::new();
    let dense: u64 = if quick { 192 } else { 4096 };
    let stride_pts: u64 = if quick { 24 } else { 256 };
    let offsets = |total: u64| -> Vec<u64> {
        let mut v: Vec<u64> = (0..=total.min(dense)).collect();
        if total > dense {
            let stride = ((total - dense) / stride_pts).max(1);
            let mut x = dense + stride;
            while x <= total {
                v.push(x);
                x += stride;
            }
        }
        v
    };
    for side in 0..2 {
        // reading side `side` reads the bytes the other side wrote
        for at in offsets(totals[1 - side]) {
            cuts.push((0, side, at));
            cuts.push((1, side, at));
        }
        for at in offsets(totals[side]) {
            cuts.push((2, side, at));
            cuts.push((3, side, at));
        }
        for at in offsets(steps) {
            cuts.push((5, side, at));
        }
        for at in 0..(if quick { 6 } else { 40 }) {
            cuts.push((6, side, at));
        }
        cuts.push((7, side, 0));
    }
    for at in offsets(steps) {
        cuts.push((4, 0, at));
    }
    let mut all: Vec<Violation> = std::mem::take(&mut reference.violations);
    let mut seen: std::collections::BTreeSet<String> = all.iter().map(|v| v.signature()).collect();
    let mut first_bad_tape: Option<crate::tape::TapeData> = None;
    let mut faults = reference.faults.clone();
    let mut total_steps = reference.steps;
    let mut states: std::collections::BTreeSet<u64> = reference.states.iter().copied().collect();
    let ncuts = cuts.len();
    let mut sweep_hash: u64 = reference.log_hash;
    for (k, side, at) in cuts {
        // same tape, fault lane selects this one cut
        let mut td = ref_tape.clone();
        td.lanes[Lane::Fault as usize] = vec![(k + 1) as u32, side as u32, at as u32];
        let sub = Tape::replay(td.clone());
        let sel2 = sub.draw(Lane::Fault, 1_000_000) as usize;
        let side2 = sub.draw(Lane::Fault, 2) as usize;
        let at2 = sub.draw(Lane::Fault, u32::MAX) as u64;
        debug_assert_eq!((sel2, side2, at2), (k + 1, side, at));
        let out = run_t1(profile, sub, &T1Opts { want_sample: false, keep_log: false, fault_override: Some(make_cut(k, side, at)) });
        faults.merge(&out.faults);
        total_steps += out.steps;
        fnv(&mut sweep_hash, &out.log_hash.to_le_bytes());
        for s in &out.states {
            states.insert(*s);
        }
        for mut v in out.violations {
            if seen.insert(v.signature()) {
                v.msg = format!("[cut {} side {} at {}] {}", CUT_KINDS[k], side, at, v.msg);
                if first_bad_tape.is_none() && v.prop == "C07" {
                    first_bad_tape = Some(td.clone());
                }
                all.push(v);
            }
        }
    }
    reference.violations = all;
    reference.faults = faults;
    reference.steps = total_steps;
    reference.states = states.into_iter().collect();
    reference.probes.insert("cut_points_swept", ncuts as u64);
    // a violation is replayed with the tape of the first failing cut
    reference.recheck_tape = Some(ref_tape.clone());
    // the log hash of a sweep covers every sub-run
    reference.log_hash = sweep_hash;
    reference.tape = first_bad_tape.unwrap_or(ref_tape);
    if let Some(s) = reference.sample.as_mut() {
        s["cut_points_swept"] = serde_json::json!(ncuts);
        s["cut_kinds"] = serde_json::json!(CUT_KINDS);
        s["reference_bytes"] = serde_json::json!(totals);
        s["reference_steps"] = serde_json::json!(steps);
    }
    reference
}
