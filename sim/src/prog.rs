//! Application programs: small interpreted op lists that drive the public h2 API and
//! record what they submit and obtain.

use crate::cfg::{gen_headers, header_map};
use crate::exec::{poll_fn, yield_now, Spawner, Status};
use crate::hist::{fields_of_headermap, fields_of_request, fields_of_response, fill, pat, Fields, Hist, ResetRec, Violation};
use crate::tape::{Lane, Tape};
use bytes::Bytes;
use std::collections::VecDeque;
use std::sync::atomic::{AtomicU64, Ordering};
use std::sync::{Arc, Mutex};
use std::future::Future;
use std::task::{Poll, Waker};

#[derive(Clone)]
pub struct Ctx {
    pub hist: Hist,
    pub spawner: Spawner,
    pub status: Status,
    pub progress: Arc<AtomicU64>,
    /// cooperative profile: programs never create circular waits
    pub coop: bool,
}

impl Ctx {
    pub fn tick(&self) {
        self.progress.fetch_add(1, Ordering::Relaxed);
    }
}

// ------------------------------------------------------------------------------------
// plans

#[derive(Debug, Clone, Copy, PartialEq, Eq)]
pub enum ChunkMode {
    Direct,
    /// reserve exactly what is left of the chunk, wait, send what was granted
    Reserve,
    /// reserve more than needed, then lower to zero afterwards
    ReserveOver,
    /// reserve one byte at a time-ish (small reservations)
    ReserveSmall,
    /// reserve, and use whatever `capacity()` already shows without waiting for the
    /// notification; wait only when it shows nothing (the notification may then be stale)
    ReservePeek,
}

#[derive(Debug, Clone)]
pub struct Chunk {
    pub len: usize,
    pub mode: ChunkMode,
}

#[derive(Debug, Clone, PartialEq, Eq)]
pub enum EndMode {
    OnLastData,
    EmptyData,
    Trailers(Fields),
}

#[derive(Debug, Clone, PartialEq, Eq)]
pub enum Abort {
    None,
    ResetAt(usize, u32),
    DropAt(usize),
}

#[derive(Debug, Clone)]
pub struct BodyPlan {
    pub chunks: Vec<Chunk>,
    pub end: EndMode,
    pub abort: Abort,
    /// keep the SendStream and wait for poll_reset after finishing
    pub wait_reset: bool,
    /// API misuse after the end of the body was submitted: bit 0 = send_data, bit 1 =
    /// send_trailers, bit 2 = reserve_capacity; each must be refused / have no wire effect
    pub late_ops: u8,
}

impl BodyPlan {
    pub fn total(&self) -> usize {
        self.chunks.iter().map(|c| c.len).sum()
    }
}

#[derive(Debug, Clone, Copy, PartialEq, Eq)]
pub enum Release {
    Immediate,
    WhenBlocked,
    Lump(usize),
    /// release in two halves
    Halves,
    /// never release, drop the stream at the end (non-cooperative when body > window)
    Never,
}

#[derive(Debug, Clone)]
pub struct ReadPlan {
    pub release: Release,
    /// drop the RecvStream after this many bytes
    pub stop_after: Option<u64>,
    pub probe_end_stream: bool,
    pub skip_trailers: bool,
}

#[derive(Debug, Clone)]
pub struct PushProg {
    pub head: Fields,
    pub path: String,
    pub resp_status: u16,
    pub resp_headers: Fields,
    pub eos_on_headers: bool,
    pub body: BodyPlan,
}

#[derive(Debug, Clone)]
pub struct ClientStreamProg {
    pub idx: usize,
    pub start_delay: u32,
    pub poll_ready_first: bool,
    pub method: &'static str,
    pub path: String,
    pub headers: Fields,
    pub sensitive_mod: u32,
    pub eos_on_headers: bool,
    pub body: BodyPlan,
    pub read: ReadPlan,
    pub poll_informational: bool,
    pub take_pushes: bool,
    pub drop_response_future: bool,
    /// drop the response future after this many polls without a response (0 = never)
    pub hold_clone: bool,
}

#[derive(Debug, Clone)]
pub struct ServerStreamProg {
    pub read: ReadPlan,
    pub informational: Vec<(u16, Fields)>,
    pub status: u16,
    pub headers: Fields,
    pub sensitive_mod: u32,
    pub eos_on_headers: bool,
    pub body: BodyPlan,
    pub pushes: Vec<PushProg>,
    pub respond_delay: u32,
    /// reset instead of responding
    pub refuse: Option<u32>,
    /// drop SendResponse without responding
    pub drop_without_response: bool,
    /// after the final response: try send_informational / push_request again (must fail)
    pub late_informational: bool,
    pub late_push: bool,
    /// pushed responses: 0 = right after each push_request (promise still queued), 1 = all
    /// promises first, responses later in promise order, 2 = later, in reverse order
    pub push_mode: u8,
    pub push_defer: u32,
}

#[derive(Debug, Clone, Copy)]
pub struct WorkSpace {
    pub max_body: usize,
    pub big_chunks: bool,
    pub aborts: bool,
    pub trailers: bool,
    pub informational: bool,
    pub pushes: bool,
    pub reserve: bool,
    pub stop_reading: bool,
    pub never_release: bool,
    pub max_header_fields: u32,
    pub header_budget: usize,
    pub wait_reset: bool,
    pub any_code: bool,
    /// pushed responses may be submitted after all promises, in either order
    pub deferred_pushes: bool,
}

pub fn gen_code(t: &Tape, any: bool) -> u32 {
    if any {
        let opts: &[u32] = &[8, 0, 1, 2, 5, 7, 11, 13, 14, 255, 0x7fff_ffff, 0x8000_0000, 0xffff_ffff, 12345678];
        let v = *t.pick(Lane::Work, opts);
        if v == 12345678 {
            t.draw(Lane::Work, u32::MAX)
        } else {
            v
        }
    } else {
        *t.pick(Lane::Work, &[8u32, 0, 2, 7, 11])
    }
}

pub fn gen_body(t: &Tape, ws: &WorkSpace, iws_hint: u32, mfs_hint: u32) -> BodyPlan {
    let n = t.draw(Lane::Work, 5) as usize;
    let mut chunks = Vec::new();
    let mut left = ws.max_body;
    for _ in 0..n {
        let class = t.draw(Lane::Work, 9);
        let iws = iws_hint as usize;
        let mfs = mfs_hint as usize;
        let mut len = match class {
            0 => t.range(Lane::Work, 1, 100) as usize,
            1 => 0,
            2 => 1,
            3 => iws.saturating_sub(1),
            4 => iws,
            5 => iws.saturating_add(1),
            6 => mfs - 1 + t.draw(Lane::Work, 3) as usize,
            7 => t.range(Lane::Work, 100, 70_000) as usize,
            _ => {
                if ws.big_chunks {
                    t.range(Lane::Work, 60_000, 300_000) as usize
                } else {
                    t.range(Lane::Work, 1000, 20_000) as usize
                }
            }
        };
        len = len.min(left);
        left -= len;
        let mode = if ws.reserve {
            *t.pick(Lane::Work, &[ChunkMode::Direct, ChunkMode::Reserve, ChunkMode::ReserveOver, ChunkMode::ReserveSmall, ChunkMode::ReservePeek])
        } else {
            ChunkMode::Direct
        };
        chunks.push(Chunk { len, mode });
    }
    let endc = t.draw(Lane::Work, 4);
    let end = match endc {
        0 => EndMode::OnLastData,
        1 => EndMode::EmptyData,
        2 if ws.trailers => EndMode::Trailers(gen_headers(t, 4, 2000)),
        _ => EndMode::OnLastData,
    };
    let abort = if ws.aborts && t.chance(Lane::Work, 1, 4) {
        let at = t.draw(Lane::Work, chunks.len() as u32 + 2) as usize;
        if t.chance(Lane::Work, 1, 2) {
            Abort::DropAt(at)
        } else {
            Abort::ResetAt(at, gen_code(t, ws.any_code))
        }
    } else {
        Abort::None
    };
    let wait_reset = ws.wait_reset && t.chance(Lane::Work, 1, 6);
    let late_ops = if t.chance(Lane::Work, 1, 6) { 1 + t.draw(Lane::Work, 7) as u8 } else { 0 };
    BodyPlan { chunks, end, abort, wait_reset, late_ops }
}

pub fn gen_read(t: &Tape, ws: &WorkSpace) -> ReadPlan {
    let rel = t.draw(Lane::Work, 6);
    let release = match rel {
        0 => Release::Immediate,
        1 => Release::WhenBlocked,
        2 => Release::Lump(t.range(Lane::Work, 1, 40_000) as usize),
        3 => Release::Halves,
        4 if ws.never_release => Release::Never,
        _ => Release::Immediate,
    };
    let stop_after = if ws.stop_reading && t.chance(Lane::Work, 1, 6) { Some(t.draw(Lane::Work, 70_000) as u64) } else { None };
    ReadPlan { release, stop_after, probe_end_stream: t.chance(Lane::Work, 1, 2), skip_trailers: false }
}

pub fn gen_client_prog(t: &Tape, idx: usize, ws: &WorkSpace, peer_iws: u32, peer_mfs: u32) -> ClientStreamProg {
    let method = *t.pick(Lane::Work, &["GET", "POST", "PUT", "DELETE"]);
    let path = format!("/s{}/{}", idx, t.draw(Lane::Work, 1000));
    let headers = gen_headers(t, ws.max_header_fields, ws.header_budget);
    let eos_on_headers = t.chance(Lane::Work, 1, 3);
    let body = gen_body(t, ws, peer_iws, peer_mfs);
    let read = gen_read(t, ws);
    ClientStreamProg {
        idx,
        start_delay: *t.pick(Lane::Work, &[0u32, 1, 2, 5, 20, 100]),
        poll_ready_first: t.chance(Lane::Work, 1, 2),
        method,
        path,
        headers,
        sensitive_mod: *t.pick(Lane::Work, &[0u32, 1, 2, 3]),
        eos_on_headers,
        body,
        read,
        poll_informational: t.chance(Lane::Work, 1, 2),
        take_pushes: ws.pushes && t.chance(Lane::Work, 3, 4),
        drop_response_future: ws.aborts && t.chance(Lane::Work, 1, 10),
        hold_clone: t.chance(Lane::Work, 1, 4),
    }
}

pub fn gen_server_prog(t: &Tape, ws: &WorkSpace, peer_iws: u32, peer_mfs: u32) -> ServerStreamProg {
    let status = *t.pick(Lane::Work, &[200u16, 201, 404, 500, 299]);
    let headers = gen_headers(t, ws.max_header_fields, ws.header_budget);
    let eos_on_headers = t.chance(Lane::Work, 1, 3);
    let body = gen_body(t, ws, peer_iws, peer_mfs);
    let read = gen_read(t, ws);
    let mut informational = Vec::new();
    if ws.informational {
        let n = t.draw(Lane::Work, 4);
        for _ in 0..n {
            informational.push((*t.pick(Lane::Work, &[103u16, 100, 102, 199]), gen_headers(t, 3, 500)));
        }
    }
    let mut pushes = Vec::new();
    if ws.pushes {
        let n = t.draw(Lane::Work, 3);
        for i in 0..n {
            let mut pws = *ws;
            pws.aborts = false;
            pushes.push(PushProg {
                head: gen_headers(t, 3, 500),
                path: format!("/pushed/{}/{}", i, t.draw(Lane::Work, 1000)),
                resp_status: 200,
                resp_headers: gen_headers(t, 3, 500),
                eos_on_headers: t.chance(Lane::Work, 1, 3),
                body: gen_body(t, &pws, peer_iws, peer_mfs),
            });
        }
    }
    let refuse = if ws.aborts && t.chance(Lane::Work, 1, 12) { Some(gen_code(t, ws.any_code)) } else { None };
    ServerStreamProg {
        read,
        informational,
        status,
        headers,
        sensitive_mod: *t.pick(Lane::Work, &[0u32, 1, 2, 3]),
        eos_on_headers,
        body,
        pushes,
        respond_delay: *t.pick(Lane::Work, &[0u32, 1, 3, 10, 50]),
        refuse,
        drop_without_response: ws.aborts && t.chance(Lane::Work, 1, 16),
        late_informational: ws.informational && t.chance(Lane::Work, 1, 4),
        late_push: ws.pushes && t.chance(Lane::Work, 1, 4),
        push_mode: if ws.pushes && ws.deferred_pushes { *t.pick(Lane::Work, &[0u8, 1, 2, 2]) } else { 0 },
        push_defer: if ws.pushes && ws.deferred_pushes { *t.pick(Lane::Work, &[0u32, 3, 20, 100]) } else { 0 },
    }
}

// ------------------------------------------------------------------------------------
// control channel to a connection task

#[derive(Debug, Clone)]
pub enum Ctl {
    SetTarget(u32),
    SetIws(u32),
    EnableConnect,
    Graceful,
    Abrupt(u32),
    DropConn,
}

#[derive(Clone, Default)]
pub struct CtlQ(pub Arc<Mutex<(VecDeque<Ctl>, Option<Waker>)>>);

impl CtlQ {
    pub fn send(&self, c: Ctl) {
        let w = {
            let mut g = self.0.lock().unwrap();
            g.0.push_back(c);
            g.1.take()
        };
        if let Some(w) = w {
            w.wake();
        }
    }
    pub fn register_and_drain(&self, w: &Waker) -> Vec<Ctl> {
        let mut g = self.0.lock().unwrap();
        g.1 = Some(w.clone());
        g.0.drain(..).collect()
    }
}

// ------------------------------------------------------------------------------------
// abandon token: in cooperative programs an endpoint that gives up one half of a stream
// (drops its SendStream mid-body, or stops reading) gives up the other half too, so that
// all handles are dropped, the stream is reset and the peer is not left waiting forever.

#[derive(Clone, Default)]
pub struct Cancel(Arc<Mutex<(bool, Vec<Waker>)>>);

impl Cancel {
    pub fn fire(&self) {
        let ws = {
            let mut g = self.0.lock().unwrap();
            g.0 = true;
            std::mem::take(&mut g.1)
        };
        for w in ws {
            w.wake();
        }
    }
    /// true if fired; otherwise registers the waker
    pub fn check(&self, w: &Waker) -> bool {
        let mut g = self.0.lock().unwrap();
        if g.0 {
            true
        } else {
            if !g.1.iter().any(|x| x.will_wake(w)) {
                g.1.push(w.clone());
            }
            false
        }
    }
    pub fn fired(&self) -> bool {
        self.0.lock().unwrap().0
    }
}

// ------------------------------------------------------------------------------------
// body sender / reader shared by both roles

fn note_reset(ctx: &Ctx, side: u8, sid: u32, code: u32, kind: &'static str) {
    ctx.hist.with(|h| {
        let step = h.step;
        h.resets.push(ResetRec { side, sid, code, kind, step });
    });
}

/// Sends the body plan on `ss`. `dir` is 0 for request bodies, 1 for response bodies.
pub async fn send_body(ctx: Ctx, name: String, side: u8, mut ss: h2::SendStream<Bytes>, plan: BodyPlan, dir: usize, sid: u32, cancel: Cancel) {
    let coop = ctx.coop;
    let mut off: u64 = 0;
    let n = plan.chunks.len();
    let mut ended = false;
    let mut aborted = false;
    'outer: for i in 0..=n {
        match plan.abort {
            Abort::ResetAt(at, code) if at == i => {
                ctx.hist.dir(sid, dir, |d| {
                    if !d.s_end {
                        d.s_abort = Some(format!("reset({})", code))
                    }
                });
                note_reset(&ctx, side, sid, code, "send_reset");
                ss.send_reset(h2::Reason::from(code));
                ctx.tick();
                ctx.hist.log(side, sid, || format!("send_reset({})", code));
                aborted = true;
                break 'outer;
            }
            Abort::DropAt(at) if at == i => {
                ctx.hist.dir(sid, dir, |d| {
                    if !d.s_end {
                        d.s_abort = Some("drop".into())
                    }
                });
                note_reset(&ctx, side, sid, 8, "drop_send");
                ctx.hist.log(side, sid, || "drop SendStream".to_string());
                if coop {
                    cancel.fire();
                }
                aborted = true;
                break 'outer;
            }
            _ => {}
        }
        if i == n {
            break;
        }
        let chunk = &plan.chunks[i];
        let last = i == n - 1;
        let eos_here = last && plan.end == EndMode::OnLastData;
        let mut rem = chunk.len;
        loop {
            let mut take = rem;
            if chunk.mode != ChunkMode::Direct && rem > 0 {
                let want = match chunk.mode {
                    ChunkMode::Reserve | ChunkMode::ReservePeek => rem,
                    ChunkMode::ReserveOver => rem + 1000,
                    _ => rem.min(7),
                };
                ss.reserve_capacity(want);
                let peek = if chunk.mode == ChunkMode::ReservePeek { ss.capacity() } else { 0 };
                ctx.status.set(&name, "poll_capacity");
                let got = poll_fn(|cx| {
                    if peek > 0 {
                        return Poll::Ready(Some(Ok(peek)));
                    }
                    if coop && cancel.check(cx.waker()) {
                        return Poll::Ready(Some(Ok(usize::MAX)));
                    }
                    ss.poll_capacity(cx)
                })
                .await;
                ctx.tick();
                if coop && cancel.fired() {
                    ctx.hist.dir(sid, dir, |d| {
                        if !d.s_end {
                            d.s_abort = Some("abandoned with the reader".into())
                        }
                    });
                    ctx.hist.log(side, sid, || "drop SendStream (stream abandoned)".to_string());
                    aborted = true;
                    break 'outer;
                }
                match got {
                    Some(Ok(0)) => {
                        ctx.hist.violation(Violation::new("C16", "capacity-zero", "poll_capacity", format!("poll_capacity returned Some(Ok(0)) on stream {}", sid), ctx.hist.step()));
                        // avoid spinning
                        yield_now().await;
                        continue;
                    }
                    Some(Ok(c)) => {
                        let cap_now = ss.capacity();
                        if cap_now < c.min(want) && cap_now == 0 {
                            // capacity may legitimately shrink between the notification and the read
                            ctx.hist.probe("capacity_shrunk_after_notification");
                        }
                        take = rem.min(c).min(cap_now.max(1));
                    }
                    Some(Err(e)) => {
                        ctx.hist.error(side, sid, "poll_capacity", &e);
                        ctx.hist.dir(sid, dir, |d| d.s_abort = Some(format!("capacity error: {}", e)));
                        aborted = true;
                        break 'outer;
                    }
                    None => {
                        ctx.hist.dir(sid, dir, |d| d.s_abort = Some("capacity: stream gone".into()));
                        aborted = true;
                        break 'outer;
                    }
                }
            }
            let eos = eos_here && take == rem;
            let data = fill(dir as u8, sid, off, take);
            ctx.hist.dir(sid, dir, |d| {
                d.s_body += take as u64;
                if eos {
                    d.s_end = true;
                }
            });
            match ss.send_data(data, eos) {
                Ok(()) => {
                    ctx.tick();
                    ctx.hist.log(side, sid, || format!("send_data(len={}, eos={})", take, eos));
                    off += take as u64;
                    rem -= take;
                    if eos {
                        ended = true;
                    }
                }
                Err(e) => {
                    ctx.hist.dir(sid, dir, |d| {
                        d.s_body -= take as u64;
                        if eos {
                            d.s_end = false;
                        }
                        d.s_abort = Some(format!("send_data error: {}", e));
                    });
                    ctx.hist.error(side, sid, "send_data", &e);
                    aborted = true;
                    break 'outer;
                }
            }
            if chunk.mode == ChunkMode::ReserveOver {
                ss.reserve_capacity(0);
            }
            if rem == 0 {
                break;
            }
        }
    }
    if !aborted && !ended {
        match &plan.end {
            EndMode::Trailers(f) => {
                let map = header_map(f, 0);
                ctx.hist.dir(sid, dir, |d| {
                    d.s_trailers = Some(f.clone());
                    d.s_end = true;
                });
                if let Err(e) = ss.send_trailers(map) {
                    ctx.hist.dir(sid, dir, |d| {
                        d.s_trailers = None;
                        d.s_end = false;
                        d.s_abort = Some(format!("send_trailers error: {}", e));
                    });
                    ctx.hist.error(side, sid, "send_trailers", &e);
                    aborted = true;
                } else {
                    ctx.hist.log(side, sid, || "send_trailers".to_string());
                }
            }
            _ => {
                ctx.hist.dir(sid, dir, |d| d.s_end = true);
                if let Err(e) = ss.send_data(Bytes::new(), true) {
                    ctx.hist.dir(sid, dir, |d| {
                        d.s_end = false;
                        d.s_abort = Some(format!("send_data error: {}", e));
                    });
                    ctx.hist.error(side, sid, "send_data", &e);
                    aborted = true;
                } else {
                    ctx.hist.log(side, sid, || "send_data(len=0, eos=true)".to_string());
                }
            }
        }
        ctx.tick();
    }
    if !aborted && plan.late_ops != 0 {
        // the end of the message has been submitted: nothing more may be accepted for it
        ctx.hist.probe("late_send_ops_after_end_attempted");
        if plan.late_ops & 4 != 0 {
            ss.reserve_capacity(1000);
            let c = ss.capacity();
            if c != 0 {
                ctx.hist.violation(Violation::new("C16", "capacity-after-end", "", format!("stream {} dir {}: capacity() = {} after the end of the body was submitted", sid, dir, c), ctx.hist.step()));
            }
        }
        if plan.late_ops & 1 != 0 {
            let len = if plan.late_ops & 4 != 0 { 0 } else { 10 };
            if ss.send_data(fill(dir as u8, sid, off, len), plan.late_ops & 2 == 0).is_ok() {
                ctx.hist.violation(Violation::new("C04", "send-accepted-after-end", "send_data", format!("stream {} dir {}: send_data accepted after the end of the body had been submitted", sid, dir), ctx.hist.step()));
            }
        }
        if plan.late_ops & 2 != 0 && ss.send_trailers(http::HeaderMap::new()).is_ok() {
            ctx.hist.violation(Violation::new("C04", "send-accepted-after-end", "send_trailers", format!("stream {} dir {}: send_trailers accepted after the end of the body had been submitted", sid, dir), ctx.hist.step()));
        }
        ctx.tick();
    }
    if plan.wait_reset && !aborted {
        ctx.status.set(&name, "poll_reset");
        let r = poll_fn(|cx| {
            if coop && cancel.check(cx.waker()) {
                return Poll::Ready(Ok(h2::Reason::NO_ERROR));
            }
            ss.poll_reset(cx)
        })
        .await;
        ctx.tick();
        if !(coop && cancel.fired()) {
            let rec = match &r {
                Ok(code) => Ok(u32::from(*code)),
                Err(e) => Err(crate::hist::ErrFacts::of(e)),
            };
            ctx.hist.with(|h| {
                let st = h.step;
                h.reset_polls.push((side, sid, rec, st));
            });
        }
        match r {
            Ok(code) => ctx.hist.log(side, sid, || format!("poll_reset -> {:?}", code)),
            Err(e) => ctx.hist.log(side, sid, || format!("poll_reset -> Err({})", e)),
        }
    }
    ctx.status.set(&name, "done");
    drop(ss);
}

/// Reads a body to its end (or to the plan's stop point), verifying the byte pattern.
pub async fn read_body(ctx: Ctx, name: String, side: u8, mut body: h2::RecvStream, plan: ReadPlan, dir: usize, sid: u32, cancel: Cancel) {
    let mut held: usize = 0;
    let mut off: u64 = 0;
    let coop = ctx.coop;
    loop {
        if plan.probe_end_stream && body.is_end_stream() {
            ctx.hist.dir(sid, dir, |d| d.r_is_end_stream_true = true);
            let (s_end, s_body, s_tr, s_abort, known) = ctx.hist.dir(sid, dir, |d| (d.s_end, d.s_body, d.s_trailers.is_some(), d.s_abort.clone(), d.s_head.is_some()));
            if known && (!s_end || s_body != off || s_tr || s_abort.is_some()) {
                ctx.hist.violation(Violation::new(
                    "C01",
                    "is-end-stream-early",
                    format!("dir{}", dir),
                    format!("is_end_stream()=true on stream {} dir {} after {} bytes but submitted end={} body={} trailers={} abort={:?}", sid, dir, off, s_end, s_body, s_tr, s_abort),
                    ctx.hist.step(),
                ));
            }
        }
        if let Some(stop) = plan.stop_after {
            if off >= stop {
                ctx.hist.dir(sid, dir, |d| d.r_stopped = true);
                ctx.hist.log(side, sid, || format!("drop RecvStream after {} bytes (held {})", off, held));
                note_reset(&ctx, side, sid, 8, "drop_recv");
                if coop {
                    cancel.fire();
                }
                ctx.status.set(&name, "done");
                return;
            }
        }
        ctx.status.set(&name, "poll_data");
        let rel = plan.release;
        let mut cancelled = false;
        let item = poll_fn(|cx| {
            if coop && cancel.check(cx.waker()) {
                cancelled = true;
                return Poll::Ready(None);
            }
            let r = body.poll_data(cx);
            if r.is_pending() && held > 0 && (coop || rel == Release::WhenBlocked) && rel != Release::Never {
                // a cooperative reader releases what it holds at the latest when it would block
                let _ = body.flow_control().release_capacity(held);
                held = 0;
            } else if r.is_pending() && held > 0 && rel == Release::Never && coop {
                let _ = body.flow_control().release_capacity(held);
                held = 0;
            }
            r
        })
        .await;
        ctx.tick();
        if cancelled {
            ctx.hist.dir(sid, dir, |d| d.r_stopped = true);
            ctx.hist.log(side, sid, || "drop RecvStream (stream abandoned)".to_string());
            ctx.status.set(&name, "done");
            return;
        }
        match item {
            Some(Ok(b)) => {
                let len = b.len();
                let mut bad = None;
                for (i, x) in b.iter().enumerate() {
                    if *x != pat(dir as u8, sid, off + i as u64) {
                        bad = Some(off + i as u64);
                        break;
                    }
                }
                off += len as u64;
                held += len;
                ctx.hist.dir(sid, dir, |d| {
                    d.r_body += len as u64;
                    if d.r_body_bad.is_none() {
                        d.r_body_bad = bad;
                    }
                });
                ctx.hist.log(side, sid, || format!("poll_data -> {} bytes", len));
                match plan.release {
                    Release::Immediate => {
                        if held > 0 {
                            if let Err(e) = body.flow_control().release_capacity(held) {
                                ctx.hist.log(side, sid, || format!("release_capacity({}) -> Err({})", held, e));
                            }
                            held = 0;
                        }
                    }
                    Release::Halves => {
                        let a = held / 2;
                        if a > 0 {
                            let _ = body.flow_control().release_capacity(a);
                        }
                        if held - a > 0 {
                            let _ = body.flow_control().release_capacity(held - a);
                        }
                        held = 0;
                    }
                    Release::Lump(k) => {
                        if held >= k {
                            let _ = body.flow_control().release_capacity(held);
                            held = 0;
                        }
                    }
                    Release::WhenBlocked | Release::Never => {}
                }
            }
            Some(Err(e)) => {
                ctx.hist.error(side, sid, "poll_data", &e);
                ctx.hist.dir(sid, dir, |d| d.r_err = Some(e.to_string()));
                ctx.hist.log(side, sid, || format!("poll_data -> Err({})", e));
                ctx.status.set(&name, "done");
                return;
            }
            None => break,
        }
    }
    if held > 0 && plan.release != Release::Never {
        let _ = body.flow_control().release_capacity(held);
    }
    ctx.status.set(&name, "poll_trailers");
    let tr = poll_fn(|cx| {
        if coop && cancel.check(cx.waker()) {
            return Poll::Ready(Err(None));
        }
        body.poll_trailers(cx).map_err(Some)
    })
    .await;
    ctx.tick();
    let tr = match tr {
        Ok(t) => Ok(t),
        Err(Some(e)) => Err(e),
        Err(None) => {
            ctx.hist.dir(sid, dir, |d| d.r_stopped = true);
            ctx.status.set(&name, "done");
            return;
        }
    };
    match tr {
        Ok(t) => {
            let f = t.as_ref().map(fields_of_headermap);
            ctx.hist.dir(sid, dir, |d| {
                d.r_trailers = f;
                d.r_end = true;
            });
            ctx.hist.log(side, sid, || format!("end of stream (trailers={})", t.is_some()));
        }
        Err(e) => {
            ctx.hist.error(side, sid, "poll_trailers", &e);
            ctx.hist.dir(sid, dir, |d| d.r_err = Some(e.to_string()));
            ctx.hist.log(side, sid, || format!("poll_trailers -> Err({})", e));
        }
    }
    ctx.status.set(&name, "done");
}

// ------------------------------------------------------------------------------------
// client stream

pub fn build_request(method: &str, path: &str, headers: &Fields, sensitive_mod: u32) -> http::Request<()> {
    let mut req = http::Request::builder().method(method).uri(format!("https://sim.test{}", path)).body(()).unwrap();
    *req.headers_mut() = header_map(headers, sensitive_mod);
    req
}

pub async fn client_stream(ctx: Ctx, name: String, mut sr: h2::client::SendRequest<Bytes>, prog: ClientStreamProg) {
    for _ in 0..prog.start_delay {
        yield_now().await;
    }
    if prog.poll_ready_first {
        ctx.status.set(&name, "poll_ready");
        let r = poll_fn(|cx| sr.poll_ready(cx)).await;
        ctx.tick();
        if let Err(e) = r {
            ctx.hist.error(0, 0, "poll_ready", &e);
            ctx.hist.log(0, 0, || format!("req#{} poll_ready -> Err({})", prog.idx, e));
            ctx.status.set(&name, "done");
            return;
        }
    }
    let req = build_request(prog.method, &prog.path, &prog.headers, prog.sensitive_mod);
    let head = fields_of_request(&req);
    let eos = prog.eos_on_headers;
    let (mut resp_fut, ss) = match sr.send_request(req, eos) {
        Ok(x) => x,
        Err(e) => {
            ctx.tick();
            ctx.hist.error(0, 0, "send_request", &e);
            ctx.hist.log(0, 0, || format!("req#{} send_request -> Err({})", prog.idx, e));
            ctx.status.set(&name, "done");
            return;
        }
    };
    ctx.tick();
    let sid: u32 = resp_fut.stream_id().as_u32();
    ctx.hist.dir(sid, 0, |d| {
        d.s_head = Some(head.clone());
        if eos {
            d.s_end = true;
        }
    });
    ctx.hist.log(0, sid, || format!("send_request(req#{}, {} {}, eos={})", prog.idx, prog.method, prog.path, eos));
    if !prog.hold_clone {
        drop(sr);
    }
    let cancel = Cancel::default();
    let coop = ctx.coop;
    if !eos {
        let n = format!("c:s{}:send", sid);
        ctx.spawner.spawn(n.clone(), send_body(ctx.clone(), n, 0, ss, prog.body.clone(), 0, sid, cancel.clone()));
    } else {
        drop(ss);
    }
    if prog.take_pushes {
        let pp = resp_fut.push_promises();
        let n = format!("c:s{}:pushes", sid);
        ctx.spawner.spawn(n.clone(), client_pushes(ctx.clone(), n, pp, sid, prog.read.clone()));
    }
    if prog.drop_response_future {
        ctx.hist.dir(sid, 1, |d| d.r_stopped = true);
        note_reset(&ctx, 0, sid, 8, "drop_response_future");
        ctx.hist.log(0, sid, || "drop ResponseFuture".to_string());
        if coop {
            cancel.fire();
        }
        ctx.status.set(&name, "done");
        return;
    }
    if prog.poll_informational {
        loop {
            ctx.status.set(&name, "poll_informational");
            let r = poll_fn(|cx| {
                if coop && cancel.check(cx.waker()) {
                    return Poll::Ready(None);
                }
                resp_fut.poll_informational(cx)
            })
            .await;
            ctx.tick();
            match r {
                Some(Ok(resp)) => {
                    let f = fields_of_response(&resp);
                    ctx.hist.dir(sid, 1, |d| d.r_info.push(f));
                    ctx.hist.log(0, sid, || format!("informational {}", resp.status()));
                }
                Some(Err(e)) => {
                    ctx.hist.error(0, sid, "poll_informational", &e);
                    break;
                }
                None => break,
            }
        }
    }
    ctx.status.set(&name, "response");
    let r = poll_fn(|cx| {
        if coop && cancel.check(cx.waker()) {
            return Poll::Ready(None);
        }
        std::pin::Pin::new(&mut resp_fut).poll(cx).map(Some)
    })
    .await;
    ctx.tick();
    let r = match r {
        Some(r) => r,
        None => {
            ctx.hist.dir(sid, 1, |d| d.r_stopped = true);
            ctx.hist.log(0, sid, || "drop ResponseFuture (stream abandoned)".to_string());
            ctx.status.set(&name, "done");
            return;
        }
    };
    match r {
        Ok(resp) => {
            let f = fields_of_response(&resp);
            ctx.hist.dir(sid, 1, |d| {
                d.r_head = Some(f);
                d.r_head_count += 1;
            });
            ctx.hist.log(0, sid, || format!("response {}", resp.status()));
            let body = resp.into_body();
            drop(resp_fut);
            read_body(ctx.clone(), name.clone(), 0, body, prog.read.clone(), 1, sid, cancel.clone()).await;
        }
        Err(e) => {
            ctx.hist.error(0, sid, "response", &e);
            ctx.hist.dir(sid, 1, |d| d.r_err = Some(e.to_string()));
            ctx.hist.log(0, sid, || format!("response -> Err({})", e));
        }
    }
    ctx.status.set(&name, "done");
}

async fn client_pushes(ctx: Ctx, name: String, mut pp: h2::client::PushPromises, parent: u32, read: ReadPlan) {
    loop {
        ctx.status.set(&name, "poll_push_promise");
        let r = poll_fn(|cx| pp.poll_push_promise(cx)).await;
        ctx.tick();
        match r {
            Some(Ok(p)) => {
                let (req, fut) = p.into_parts();
                let pid = fut.stream_id().as_u32();
                let f = fields_of_request(&req);
                ctx.hist.dir(parent, 1, |d| d.r_push.push((pid, f)));
                ctx.hist.log(0, parent, || format!("push promise -> stream {}", pid));
                let n = format!("c:s{}:pushed", pid);
                let c2 = ctx.clone();
                let read = read.clone();
                let n2 = n.clone();
                ctx.spawner.spawn(n, async move {
                    c2.status.set(&n2, "pushed response");
                    match fut.await {
                        Ok(resp) => {
                            c2.tick();
                            let f = fields_of_response(&resp);
                            c2.hist.dir(pid, 1, |d| {
                                d.r_head = Some(f);
                                d.r_head_count += 1;
                            });
                            // the pushed stream's response is in the application's hands
                            c2.hist.with(|h| {
                                let st = h.step;
                                h.pushed_taken_step.insert(pid, st);
                            });
                            read_body(c2.clone(), n2.clone(), 0, resp.into_body(), read, 1, pid, Cancel::default()).await;
                        }
                        Err(e) => {
                            c2.tick();
                            c2.hist.error(0, pid, "pushed_response", &e);
                            c2.hist.dir(pid, 1, |d| d.r_err = Some(e.to_string()));
                        }
                    }
                    c2.status.set(&n2, "done");
                });
            }
            Some(Err(e)) => {
                ctx.hist.error(0, parent, "push_promise", &e);
                break;
            }
            None => break,
        }
    }
    ctx.status.set(&name, "done");
}

// ------------------------------------------------------------------------------------
// server stream

fn send_pushed_response(ctx: &Ctx, mut pr: h2::server::SendPushedResponse<Bytes>, p: &PushProg) {
    let pid = pr.stream_id().as_u32();
    let mut r = http::Response::builder().status(p.resp_status).body(()).unwrap();
    *r.headers_mut() = header_map(&p.resp_headers, 0);
    let rrec = fields_of_response(&r);
    match pr.send_response(r, p.eos_on_headers) {
        Ok(ss) => {
            ctx.hist.dir(pid, 1, |d| {
                d.s_head = Some(rrec);
                if p.eos_on_headers {
                    d.s_end = true;
                }
            });
            if !p.eos_on_headers {
                let n = format!("s:s{}:send", pid);
                ctx.spawner.spawn(n.clone(), send_body(ctx.clone(), n, 1, ss, p.body.clone(), 1, pid, Cancel::default()));
            }
        }
        Err(e) => {
            ctx.hist.error(1, pid, "pushed send_response", &e);
        }
    }
}

pub async fn server_stream(ctx: Ctx, name: String, req: http::Request<h2::RecvStream>, mut respond: h2::server::SendResponse<Bytes>, prog: ServerStreamProg) {
    let sid = respond.stream_id().as_u32();
    let head = fields_of_request(&req);
    ctx.hist.dir(sid, 0, |d| {
        d.r_head = Some(head);
        d.r_head_count += 1;
    });
    ctx.hist.with(|h| {
        let st = h.step;
        h.accept_step.insert(sid, st);
    });
    ctx.hist.log(1, sid, || format!("accepted {} {}", req.method(), req.uri()));
    let body = req.into_body();
    let cancel = Cancel::default();
    let rn = format!("s:s{}:read", sid);
    ctx.spawner.spawn(rn.clone(), read_body(ctx.clone(), rn, 1, body, prog.read.clone(), 0, sid, cancel.clone()));
    for _ in 0..prog.respond_delay {
        yield_now().await;
    }
    if let Some(code) = prog.refuse {
        ctx.hist.dir(sid, 1, |d| d.s_abort = Some(format!("reset({})", code)));
        note_reset(&ctx, 1, sid, code, "send_reset");
        respond.send_reset(h2::Reason::from(code));
        ctx.tick();
        ctx.hist.log(1, sid, || format!("SendResponse::send_reset({})", code));
        ctx.status.set(&name, "done");
        return;
    }
    if prog.drop_without_response || (ctx.coop && cancel.fired()) {
        ctx.hist.dir(sid, 1, |d| d.s_abort = Some("drop".into()));
        note_reset(&ctx, 1, sid, 8, "drop_respond");
        ctx.hist.log(1, sid, || "drop SendResponse".to_string());
        if ctx.coop {
            cancel.fire();
        }
        ctx.status.set(&name, "done");
        return;
    }
    for (st, f) in &prog.informational {
        let mut r = http::Response::builder().status(*st).body(()).unwrap();
        *r.headers_mut() = header_map(f, 0);
        let rec = fields_of_response(&r);
        match respond.send_informational(r) {
            Ok(()) => {
                ctx.hist.dir(sid, 1, |d| d.s_info.push(rec));
                ctx.hist.log(1, sid, || format!("send_informational({})", st));
            }
            Err(e) => {
                ctx.hist.log(1, sid, || format!("send_informational -> Err({})", e));
            }
        }
        ctx.tick();
    }
    let mut promised = Vec::new();
    for p in &prog.pushes {
        let preq = build_request("GET", &p.path, &p.head, 0);
        let rec = fields_of_request(&preq);
        match respond.push_request(preq) {
            Ok(pr) => {
                ctx.tick();
                let pid = pr.stream_id().as_u32();
                ctx.hist.dir(sid, 1, |d| d.s_push.push((pid, rec)));
                ctx.hist.log(1, sid, || format!("push_request -> stream {}", pid));
                promised.push((pr, p.clone()));
            }
            Err(e) => {
                ctx.tick();
                ctx.hist.log(1, sid, || format!("push_request -> Err({})", e));
            }
        }
        if prog.push_mode == 0 {
            if let Some((pr, p)) = promised.pop() {
                send_pushed_response(&ctx, pr, &p);
            }
        }
    }
    if !promised.is_empty() {
        // the promises get a chance to reach the wire before their responses are submitted
        for _ in 0..prog.push_defer {
            yield_now().await;
        }
        if prog.push_mode == 2 {
            promised.reverse();
        }
        for (pr, p) in promised {
            send_pushed_response(&ctx, pr, &p);
        }
    }
    let mut r = http::Response::builder().status(prog.status).body(()).unwrap();
    *r.headers_mut() = header_map(&prog.headers, prog.sensitive_mod);
    let rec = fields_of_response(&r);
    let eos = prog.eos_on_headers;
    ctx.hist.dir(sid, 1, |d| {
        d.s_head = Some(rec);
        if eos {
            d.s_end = true;
        }
    });
    match respond.send_response(r, eos) {
        Ok(ss) => {
            ctx.tick();
            ctx.hist.log(1, sid, || format!("send_response({}, eos={})", prog.status, eos));
            if !eos {
                let n = format!("s:s{}:send", sid);
                ctx.spawner.spawn(n.clone(), send_body(ctx.clone(), n, 1, ss, prog.body.clone(), 1, sid, cancel.clone()));
            }
            // operations that are only legal before the final response must now be refused
            if prog.late_informational {
                let r = http::Response::builder().status(103).body(()).unwrap();
                let res = respond.send_informational(r);
                ctx.hist.probe("late_send_informational_attempted");
                ctx.hist.log(1, sid, || format!("late send_informational -> {:?}", res.as_ref().map_err(|e| e.to_string())));
            }
            if prog.late_push && eos {
                let preq = build_request("GET", "/late-push", &vec![], 0);
                let res = respond.push_request(preq);
                ctx.hist.probe("late_push_request_attempted");
                ctx.hist.log(1, sid, || format!("late push_request -> {:?}", res.as_ref().map(|_| ()).map_err(|e| e.to_string())));
                // (if it is wrongly accepted the handle is dropped: the pushed stream is cancelled)
            }
        }
        Err(e) => {
            ctx.tick();
            ctx.hist.dir(sid, 1, |d| {
                d.s_head = None;
                d.s_end = false;
                d.s_abort = Some(format!("send_response error: {}", e));
            });
            ctx.hist.error(1, sid, "send_response", &e);
            ctx.hist.log(1, sid, || format!("send_response -> Err({})", e));
        }
    }
    ctx.status.set(&name, "done");
}
